#!/usr/bin/env python3
import json,jsonschema,glob,sys
ok=True
m=json.load(open('/verif/MANIFEST.json')); jsonschema.validate(m,json.load(open('/root/.vp/MANIFEST.schema.json'))); print("manifest ok")
sch=json.load(open('/root/.vp/EVIDENCE.schema.json'))
for f in sorted(glob.glob('/verif/evidence/*.json')):
    try:
        jsonschema.validate(json.load(open(f)),sch); print(f,"ok")
    except Exception as e:
        ok=False; print(f,"INVALID",str(e)[:300])
sys.exit(0 if ok else 1)
