#!/bin/bash
# detect_mutant.sh <worktree> <patch> <tier> <prop>...  : run checks against a scratch worktree carrying the patch
WT=$1; PATCH=$2; TIER=$3; shift 3
export GOFLAGS=-mod=mod GOPROXY=off GOSUMDB=off GOTOOLCHAIN=local
cd $WT || exit 2
git checkout -q -- . ; git clean -fdq
git apply $PATCH || { echo "patch does not apply"; exit 2; }
for P in "$@"; do
  out=$(VERIF_REPO=$WT VERIF_DIR=/verif /verif/bin/verif check $P --tier $TIER --no-evidence 2>&1); rc=$?
  echo "DETECT patch=$PATCH prop=$P tier=$TIER rc=$rc"
  echo "$out" | grep -E "^(VIOLATION|KNOWN|INCONCLUSIVE)" | cut -c1-300 | head -8
  echo "$out" | tail -1 | cut -c1-200
done
git checkout -q -- . ; git clean -fdq
