#!/bin/bash
# confirm_mutant.sh <worktree> <mutdir> <pkgdir-for-demo>
# Confirms: demo passes without patch, demo fails with patch, full suite passes with patch.
WT=$1; MUT=$2; PKG=$3
export GOFLAGS=-mod=mod GOPROXY=off GOSUMDB=off GOTOOLCHAIN=local
cd $WT || exit 2
git checkout -q -- . ; git clean -fdq
cp $MUT/demo_test.go $WT/$PKG/zz_mutdemo_test.go
MOD=.; REL=$PKG
case $PKG in godev/*) MOD=godev; REL=${PKG#godev/};; esac
names=$(grep -o '^func Test[A-Za-z0-9_]*' $MUT/demo_test.go | sed 's/func //' | paste -sd'|')
(cd $WT/$MOD && timeout 600 go test -vet=off -count=1 -run "^($names)\$" ./$REL >/tmp/confirm_$$.a 2>&1); A=$?
git apply $MUT/patch.diff || { echo "RESULT $MUT patch-does-not-apply"; exit 1; }
(cd $WT/$MOD && timeout 600 go test -vet=off -count=1 -run "^($names)\$" ./$REL >/tmp/confirm_$$.b 2>&1); B=$?
rm $WT/$PKG/zz_mutdemo_test.go
S=0
for m in . config godev; do (cd $WT/$m && timeout 1500 go test -vet=off -count=1 ./... >/tmp/confirm_$$.s 2>&1) || { S=1; grep -E "^(FAIL|---)" /tmp/confirm_$$.s | head -5; }; done
git checkout -q -- . ; git clean -fdq
echo "RESULT $MUT demo_without_patch_rc=$A demo_with_patch_rc=$B suite_with_patch_rc=$S"
rm -f /tmp/confirm_$$.*
