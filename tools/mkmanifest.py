#!/usr/bin/env python3
"""Regenerates /verif/MANIFEST.json from the per-property table below and harness/*/spec.json."""
import json, os, sys
V = os.path.dirname(os.path.dirname(os.path.abspath(__file__)))
ENV = "GOFLAGS=-mod=mod GOPROXY=off GOSUMDB=off GOTOOLCHAIN=local"
claims = json.load(open(os.path.join(V, "tools", "claims.json")))
props = [json.loads(l)["id"] for l in open(os.path.join(V, "properties.jsonl"))]
checks, na = [], []
for pid in props:
    c = claims.get(pid)
    if not c or not c.get("claimed"):
        na.append({"property_id": pid, "reason": (c or {}).get("reason", "no solver-based check built yet for this property (work in progress; see DESIGN.md section 2)")})
        continue
    checks.append({
        "property_id": pid,
        "quick_cmd": f"{ENV} ./bin/verif check {pid} --tier quick",
        "thorough_cmd": f"{ENV} ./bin/verif check {pid} --tier thorough",
        "evidence_file": f"/verif/evidence/{pid}.json",
        "replay_cmd_template": f"{ENV} ./bin/verif replay {{path}}",
        "engine": "verif-sse",
        "level_claimed": {"category": "model_checking", "text": c["text"], "design_ref": c.get("design_ref", f"DESIGN.md section 2, {pid}")},
        "level_note": c["note"],
        "technique": c.get("technique", "bounded symbolic execution of the real functions (go/ssa -> SMT-LIB2 bit-vectors/arrays), assertions decided by z3, counterexamples replayed natively"),
    })
m = {
    "version": 1,
    "setup_cmd": f"cd /verif/engine && {ENV} go build -o ../bin/verif . ",
    "hooks": {"guard": "verif", "enable": "no hooks in /repo: harnesses and the vrt runtime are injected with go/packages Overlay and go test -overlay", "baseline_off_cmd": "for m in . godev; do (cd /repo/$m && GOFLAGS=-mod=mod GOPROXY=off go test -vet=off -count=1 ./...); done", "source_commits": [], "add_only": True},
    "engines": [{"name": "verif-sse", "path": "/verif/engine", "serves_properties": [c["property_id"] for c in checks], "kind_free_text": "symbolic executor for go/ssa written for this task: forking path exploration, values as SMT bit-vector/array/FP terms, z3 -in as decision procedure, native replay of models through go test -overlay"}],
    "checks": checks,
    "not_applicable": na,
    "notes": "Every check regenerates its encoding from /repo's working tree on each run (go/packages + go/ssa with overlays). Bounds are stated per check in evidence.coverage.bounds and in harness/<id>/spec.json.",
}
json.dump(m, open(os.path.join(V, "MANIFEST.json"), "w"), indent=1)
print("checks:", [c["property_id"] for c in checks], "n/a:", len(na))
