package crashmonitor

// Harness for C14 (crash reports reach telemetry only as program counters).

import (
	"golang.org/x/telemetry/internal/vrt"
	"golang.org/x/telemetry/internal/vrt/vruntime"
)

// ascii returns n arbitrary bytes < 0x80 other than newline.
func c14ascii(n int) string {
	s := vrt.String(n)
	for i := 0; i < len(s); i++ {
		vrt.Assume(s[i] < 0x80 && s[i] != '\n')
	}
	return s
}

func c14tail(max int) string { return c14ascii(vrt.Choose(max + 1)) }

// c14text builds a crash text from line roles. rel collects the parts of the text the
// counter name is allowed to depend on (sentinel line, pc= suffixes of the first running
// goroutine's location lines, and whether a symbol is runtime.sigpanic); everything else
// is "other text". The role sequence itself is chosen by forks and returned as a code so
// that two texts can be forced to share it.
type c14gen struct {
	t    int   // bound on the length of relevant holes (sentinel digits, pc text)
	extra bool // allow a second sentinel-looking line after the first
	o    int   // exact length of every "other text" hole; -1: each 0..1 by fork
	code []int // role choices made (for replaying the same roles in a second text)
	rd   int
	fix  []int // when non-nil, choices are taken from here
	rel  []string
}

func (g *c14gen) choose(n int) int {
	if g.fix != nil {
		v := g.fix[g.rd]
		g.rd++
		return v
	}
	v := vrt.Choose(n)
	g.code = append(g.code, v)
	return v
}

func (g *c14gen) oth() string {
	if g.o < 0 {
		return c14tail(1)
	}
	return c14ascii(g.o)
}

func (g *c14gen) sentinelLine() string {
	switch g.choose(3) {
	case 0:
		return ""
	case 1:
		s := "sentinel " + c14tail(g.t)
		g.rel = append(g.rel, s)
		return s + "\n"
	default:
		return g.oth() + "\n" // junk line
	}
}

func (g *c14gen) goroutineLine() string {
	switch g.choose(3) {
	case 0:
		return "goroutine " + g.oth() + " [running]:" + g.oth() + "\n"
	case 1:
		return "goroutine " + g.oth() + " [sleep]:\n"
	default:
		return g.oth() + "\n"
	}
}

func (g *c14gen) frame() string {
	var sym string
	switch g.choose(3) {
	case 0:
		sym = "runtime.sigpanic(" + g.oth() + ")"
		g.rel = append(g.rel, "sigpanic")
	case 1:
		sym = g.oth() + g.oth() + "(" + g.oth() + ")"
		g.rel = append(g.rel, "sym")
	default:
		sym = g.oth() + g.oth()
		g.rel = append(g.rel, "junk")
	}
	var loc string
	switch g.choose(5) {
	case 0:
		pc := c14tail(g.t)
		g.rel = append(g.rel, "pc="+pc)
		loc = "\t" + g.oth() + " pc=" + pc
	case 1:
		pc := "0x" + c14tail(g.t-1)
		g.rel = append(g.rel, "pc="+pc)
		loc = "\t" + g.oth() + " pc=" + pc
	case 2:
		loc = g.oth() + g.oth()
		g.rel = append(g.rel, "nopc")
	case 3:
		loc = ""
		g.rel = append(g.rel, "blank")
	default:
		loc = "created by " + g.oth()
		g.rel = append(g.rel, "created")
	}
	return sym + "\n" + loc + "\n"
}

func (g *c14gen) text(frames int) string {
	s := g.sentinelLine()
	if g.extra && len(g.rel) > 0 && g.choose(2) == 1 {
		// the first sentinel is a non-zero address (it is the address of a function)...
		first := g.rel[0]
		vrt.Assume(len(first) > 9 && first[9] >= '1' && (first[9] <= '9' || first[9] >= 'a' && first[9] <= 'f'))
		// ...and more text that looks like a sentinel line follows before the goroutines
		// (for instance inside a panic message): it is "other text" and must not matter
		s += "sentinel " + c14tail(g.t) + "\n"
	}
	s += g.goroutineLine()
	for i := 0; i < frames; i++ {
		s += g.frame()
	}
	return s
}

func c14hook() {
	vruntime.FramesHook = func(pcs []uintptr) []vruntime.Frame {
		fs := make([]vruntime.Frame, len(pcs))
		for i := range pcs {
			fs[i] = vruntime.Frame{PC: pcs[i], Entry: pcs[i], Function: "p.f", Func: &vruntime.Func{}}
		}
		if len(fs) == 0 {
			fs = []vruntime.Frame{{}}
		}
		return fs
	}
}

// VC14_total: deriving the counter name terminates without panic and has the documented
// shape, for every text built from the line roles with arbitrary ASCII in every hole.
func VC14_total() {
	g := &c14gen{t: vrt.Param("tail", 2), o: vrt.Param("other", 1)}
	crash := g.text(vrt.Param("frames", 1))
	c14hook()
	name, err := telemetryCounterName([]byte(crash))
	if err != nil {
		vrt.Reach("error")
		vrt.Assert(name == "", "telemetryCounterName: an error carries no name")
		return
	}
	if name == "crash/no-running-goroutine" {
		vrt.Reach("no running goroutine")
		return
	}
	vrt.Reach("named")
	const prefix = "crash/crash\n"
	vrt.Assert(len(name) > len(prefix) && name[:len(prefix)] == prefix, "telemetryCounterName: name starts with the crash prefix")
	vrt.Assert(len(name) <= 4096, "telemetryCounterName: name within the size limit")
	nl := 0
	for i := 0; i < len(name); i++ {
		if name[i] == '\n' {
			nl++
		}
	}
	vrt.Assert(nl >= 1 && nl <= 16, "telemetryCounterName: between 1 and 16 frames")
}

// VC14_frames16: more than 16 program counters are cut to 16 frames.
func VC14_frames16() {
	n := 15 + vrt.Choose(4) // 15..18 frames
	crash := "sentinel 1\ngoroutine 1 [running]:\n"
	for i := 0; i < n; i++ {
		crash += "f(" + c14ascii(1) + ")\n\t pc=0x1" + "\n"
	}
	c14hook()
	name, err := telemetryCounterName([]byte(crash))
	vrt.Assert(err == nil, "telemetryCounterName: well-formed traceback accepted")
	nl := 0
	for i := 0; i < len(name); i++ {
		if name[i] == '\n' {
			nl++
		}
	}
	want := n
	if want > 16 {
		want = 16
	}
	vrt.Assert(nl == want, "telemetryCounterName: at most 16 frames are kept")
}

// VC14_pcs: the program counters are exactly the relocated pc= values of the first running
// goroutine, incremented after a runtime.sigpanic frame.
func VC14_pcs() {
	ps := vrt.U64()
	vrt.Assume(ps != 0 && ps < 1<<8)
	pc1, pc2 := vrt.U64(), vrt.U64()
	vrt.Assume(pc1 < 1<<8 && pc2 < 1<<8)
	// the first frame's symbol line: an ordinary function, the genuine runtime.sigpanic
	// frame, or text that merely contains "runtime.sigpanic(" - behind a prefix byte,
	// inside the arguments, or as a longer symbol; only the genuine one marks a trap
	trap, nearMiss := false, false
	var sym1 string
	switch vrt.Choose(5) {
	case 0:
		sym1 = "main.f(" + c14ascii(1) + ")"
	case 1:
		trap = true
		sym1 = "runtime.sigpanic(" + c14ascii(1) + ")"
	case 2:
		nearMiss = true
		sym1 = c14ascii(1) + "runtime.sigpanic(" + c14ascii(1) + ")"
	case 3:
		nearMiss = true
		sym1 = "main.f(runtime.sigpanic(" + c14ascii(1) + "))"
	default:
		nearMiss = true
		x := c14ascii(1)
		vrt.Assume(x[0] != '(')
		sym1 = "runtime.sigpanic" + x + "()"
	}
	crash := "sentinel " + c14hex(ps) + "\n" + c14ascii(2) + "\ngoroutine 7 [running]:\n" +
		sym1 + "\n\t" + c14ascii(1) + " pc=0x" + c14hex(pc1) + "\n" +
		"main.g(" + c14ascii(1) + ")\n\t" + c14ascii(1) + " pc=0x" + c14hex(pc2) + "\n" +
		"\ngoroutine 8 [running]:\nmain.h()\n\t pc=0x1\n"
	pcs, err := parseStackPCs(crash)
	if nearMiss && err != nil {
		return // other text may make the report unusable, it may not change the PCs
	}
	vrt.Assert(err == nil && len(pcs) == 2, "parseStackPCs: two frames of the first running goroutine")
	if err != nil || len(pcs) != 2 {
		return
	}
	cs := sentinel()
	vrt.Assert(uint64(pcs[0]) == pc1-ps+cs, "parseStackPCs: first pc relocated by the sentinel difference")
	w2 := pc2 - ps + cs
	if trap {
		w2++
	}
	vrt.Assert(uint64(pcs[1]) == w2, "parseStackPCs: pc after runtime.sigpanic is incremented, others are not")
}

func c14hex(v uint64) string {
	// fixed-width (2 digits) hex of a value < 2^8; digits stay symbolic
	const hexd = "0123456789abcdef"
	b := make([]byte, 2)
	for i := 1; i >= 0; i-- {
		b[i] = hexd[v&15]
		v >>= 4
	}
	return string(b)
}

// VC14_noninterference: two crash texts with the same line roles that agree on the
// sentinel line, on the pc= text of every location line and on which symbols are
// runtime.sigpanic, but differ arbitrarily elsewhere, yield the same program counters
// (or an error).
func VC14_noninterference() {
	t := vrt.Param("tail", 2)
	frames := vrt.Param("frames", 1)
	ga := &c14gen{t: t, o: vrt.Param("other_a", 1), extra: true}
	a := ga.text(frames)
	gb := &c14gen{t: t, o: vrt.Param("other_b", 2), fix: ga.code, extra: true}
	b := gb.text(frames)
	vrt.Assume(len(ga.rel) == len(gb.rel))
	for i := range ga.rel {
		vrt.Assume(ga.rel[i] == gb.rel[i])
	}
	pa, ea := parseStackPCs(a)
	pb, eb := parseStackPCs(b)
	if ea != nil || eb != nil {
		vrt.Reach("error")
		return
	}
	same := len(pa) == len(pb)
	if same {
		for i := range pa {
			same = same && pa[i] == pb[i]
		}
	}
	vrt.Assert(same, "parseStackPCs: PCs depend only on sentinel, pc= text and sigpanic frames")
}
