package content

// Harness for C12, error rendering: whatever the error text (long, multi-byte), turning a
// handler error into a response does not panic and keeps the error's status code.

import (
	"errors"
	"net/http"
	"net/url"

	"golang.org/x/telemetry/internal/vrt"
)

type c12crw struct {
	code int
	hdr  http.Header
}

func (w *c12crw) Header() http.Header {
	if w.hdr == nil {
		w.hdr = http.Header{}
	}
	return w.hdr
}
func (w *c12crw) Write(b []byte) (int, error) {
	if w.code == 0 {
		w.code = 200
	}
	return len(b), nil
}
func (w *c12crw) WriteHeader(c int) {
	if w.code == 0 {
		w.code = c
	}
}

func VC12_err() {
	// the text: k characters, all one byte wide or all three bytes wide, around the
	// 80-character truncation point of the log line
	k := 70 + vrt.Choose(vrt.Param("span", 25))
	unit := []string{"x", "中", "é"}[vrt.Choose(3)]
	msg := ""
	for i := 0; i < k; i++ {
		msg += unit
	}
	code := []int{400, 405, 404, 500}[vrt.Choose(4)]
	var err error = &contentError{errors.New(msg), code}
	if vrt.Bool() {
		err = errors.New(msg) // a plain error: 500
		code = 500
	}
	w := &c12crw{}
	h := HandlerFunc(func(http.ResponseWriter, *http.Request) error { return err })
	h.ServeHTTP(w, &http.Request{Method: "POST", URL: &url.URL{Path: "/upload/x"}})
	vrt.Assert(w.code == code, "an error is answered with its own status, whatever its text")
}
