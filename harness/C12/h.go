package main

// Harness for C12 (the upload endpoint stores exactly the valid reports it is sent).

import (
	"bytes"
	"context"
	realjson "encoding/json"
	"fmt"
	"io"
	"math"
	"net/http"
	"net/url"

	"golang.org/x/telemetry/godev/internal/content"
	"golang.org/x/telemetry/godev/internal/middleware"
	"golang.org/x/telemetry/godev/internal/storage"
	tconfig "golang.org/x/telemetry/internal/config"
	"golang.org/x/telemetry/internal/telemetry"
	"golang.org/x/telemetry/internal/vrt"
	"golang.org/x/telemetry/internal/vrt/vjson"
	"golang.org/x/telemetry/internal/vrt/vos"
	"golang.org/x/telemetry/internal/vrt/vspec"
)

type c12rw struct {
	code   int
	header http.Header
	body   []byte
}

func (w *c12rw) Header() http.Header {
	if w.header == nil {
		w.header = http.Header{}
	}
	return w.header
}
func (w *c12rw) Write(b []byte) (int, error) {
	if w.code == 0 {
		w.code = 200
	}
	w.body = append(w.body, b...)
	return len(b), nil
}
func (w *c12rw) WriteHeader(code int) {
	if w.code == 0 {
		w.code = code
	}
}

func c12noBrace(s string) {
	for i := 0; i < len(s); i++ {
		vrt.Assume(s[i] != '{' && s[i] != '}' && s[i] != ',')
	}
}

// c12config: one program with one version, a plain and a bucketed counter, a stack; one
// GOOS/GOARCH/GoVersion each. All strings arbitrary bytes of the given length.
func c12config(slen int) *telemetry.UploadConfig {
	cfg := &telemetry.UploadConfig{}
	cfg.GOOS = []string{vrt.String(1)}
	cfg.GOARCH = []string{vrt.String(1)}
	cfg.GoVersion = []string{vrt.String(slen)}
	p := &telemetry.ProgramConfig{Name: vrt.String(slen), Versions: []string{vrt.String(slen)}}
	plain := vrt.String(1 + vrt.Choose(slen))
	c12noBrace(plain)
	pre, b1, b2 := vrt.String(1), vrt.String(1), vrt.String(1)
	c12noBrace(pre)
	c12noBrace(b1)
	c12noBrace(b2)
	p.Counters = []telemetry.CounterConfig{{Name: plain, Rate: 1}, {Name: pre + "{" + b1 + "," + b2 + "}", Rate: 1}}
	p.Stacks = []telemetry.CounterConfig{{Name: vrt.String(slen), Rate: 1}}
	cfg.Programs = []*telemetry.ProgramConfig{p}
	return cfg
}

var c12configs = []string{"v1.2.3", "v0.0.0-0", "v1.2.3-pre+meta", "", "1.2.3", "vx", "v01.2.3"}
var c12configOK = []bool{true, true, true, false, false, false, false}

var c12plainWeek bool

func c12week() string {
	c12plainWeek = false
	switch vrt.Choose(3) {
	case 0:
		c12plainWeek = true
		return []string{"2024-02-29", "1999-12-31", "2023-01-01"}[vrt.Choose(3)]
	case 1:
		if vrt.Param("product", 0) != 0 {
			return vrt.String(10) // ten arbitrary bytes
		}
		// a valid date with one arbitrary byte at any position
		d := []byte([]string{"2024-02-29", "2023-02-28", "2023-12-31"}[vrt.Choose(3)])
		d[vrt.Choose(10)] = vrt.U8()
		return string(d)
	}
	return vrt.String(vrt.Choose(vrt.Param("weeklen", 3) + 1)) // short hostile values: "", "..", "../", "/"
}

func c12report(slen, nprog int) *telemetry.Report {
	r := &telemetry.Report{Week: c12week(), LastWeek: ""}
	// X: any float a JSON number can decode to (no NaN/Inf), including 0, -0, negative, huge
	r.X = math.Float64frombits(vrt.U64())
	vrt.Assume(!math.IsNaN(r.X) && !math.IsInf(r.X, 0))
	full := vrt.Param("product", 0) != 0
	// quick tier: one field at a time may be invalid (a report with an invalid week keeps a
	// valid config and no programs, and so on); thorough tier: full product
	if !full && !c12plainWeek {
		r.Config = c12configs[0]
		return r
	}
	ci := vrt.Choose(len(c12configs))
	r.Config = c12configs[ci]
	if !full && (!c12configOK[ci] || r.X == 0) {
		return r
	}
	for i := 0; i < nprog; i++ {
		p := &telemetry.ProgramReport{Program: vrt.String(slen), Version: vrt.String(slen), GoVersion: vrt.String(slen), GOOS: vrt.String(1), GOARCH: vrt.String(1),
			Counters: map[string]int64{}, Stacks: map[string]int64{}}
		if vrt.Bool() {
			p.Counters[vrt.String(1+vrt.Choose(2))] = int64(vrt.U32())
		}
		if vrt.Bool() {
			p.Stacks[vrt.String(slen)+"\n"+vrt.String(1)] = int64(vrt.U32())
		}
		r.Programs = append(r.Programs, p)
	}
	return r
}

func c12semverOK(s string) bool {
	for i, c := range c12configs {
		if c == s {
			return c12configOK[i]
		}
	}
	return false
}

func c12specValid(r *telemetry.Report, cfg *telemetry.UploadConfig) bool {
	if !vspec.IsDateOnly(r.Week) || !c12semverOK(r.Config) || r.X == 0 {
		return false
	}
	for _, p := range r.Programs {
		if !vspec.BuildOK(cfg, p.Program, p.Version, p.GoVersion, p.GOOS, p.GOARCH) {
			return false
		}
		for k := range p.Counters {
			if ok, _ := vspec.CounterRate(cfg, p.Program, k); !ok {
				return false
			}
		}
		for k := range p.Stacks {
			if ok, _ := vspec.StackRate(cfg, p.Program, k); !ok {
				return false
			}
		}
	}
	return true
}

func c12hasPrefix(s, p string) bool { return len(s) >= len(p) && s[:len(p)] == p }

// VC12_upload: one request to the upload endpoint.
func VC12_upload() {
	vos.Reset()
	vjson.Reset()
	ctx := context.Background()
	bucket, err := storage.NewFSBucket(ctx, "/data", "up")
	vrt.Assert(err == nil, "bucket")
	if err != nil {
		return
	}
	ucfg := c12config(vrt.Param("slen", 1))
	cfg := tconfig.NewConfig(ucfg)
	h := handleUpload(cfg, bucket)

	method := []string{"POST", "GET", "PUT", "post", "", "POSTX"}[vrt.Choose(6)]
	decodeOK := vrt.Bool()
	var sent *telemetry.Report
	var body []byte
	if decodeOK && method != "POST" {
		sent = &telemetry.Report{Week: "2024-02-29", Config: "v1.2.3", X: 0.5}
		if !vrt.IsSymbolic() {
			body, _ = realjson.Marshal(sent)
		}
	} else if decodeOK {
		sent = c12report(vrt.Param("slen", 1), vrt.Param("programs", 1))
		if !vrt.IsSymbolic() {
			body, _ = realjson.Marshal(sent)
		}
	} else {
		body = []byte(`{"Week": 12`)
	}
	vjson.DecodeHook = func(r io.Reader, dst any) error {
		if !decodeOK {
			return fmt.Errorf("bad json")
		}
		*(dst.(*telemetry.Report)) = *sent
		return nil
	}
	req := &http.Request{Method: method, URL: &url.URL{Path: "/upload/x"}, Body: io.NopCloser(bytes.NewReader(body))}
	rw := &c12rw{}
	vos.Events = nil
	content.HandlerFunc(h).ServeHTTP(rw, req)

	valid := method == "POST" && decodeOK && c12specValid(sent, ucfg)
	created := 0
	var objPath string
	for _, ev := range vos.Events {
		if ev.Op == "create" {
			created++
			objPath = ev.Path
		}
	}
	if !valid {
		vrt.Assert(len(vos.Events) == 0, "an invalid request creates or changes nothing")
		if method != "POST" {
			vrt.Assert(rw.code == 405, "other methods are refused with 405")
		} else {
			vrt.Assert(rw.code == 400, "an invalid report is refused with 400")
		}
		return
	}
	vrt.Reach("stored")
	vrt.Assert(rw.code == 200, "a valid report is acknowledged with 200")
	vrt.Assert(created == 1, "a valid report is stored as one object")
	want := "/data/up/" + sent.Week + "/" + fmt.Sprintf("%g", sent.X) + ".json"
	vrt.Assert(objPath == want, "the object is named by the report's week and X inside the bucket")
	vrt.Assert(c12hasPrefix(objPath, "/data/up/"), "the object lies inside the upload bucket")
	for _, ev := range vos.Events {
		if ev.Op == "create" || ev.Op == "write" || ev.Op == "mkdir" || ev.Op == "truncate" {
			vrt.Assert(c12hasPrefix(ev.Path, "/data/up/"), "nothing is written outside the bucket")
		}
	}
	nd := vos.Lookup(objPath)
	vrt.Assert(nd != nil, "the object exists")
	if nd == nil {
		return
	}
	var got telemetry.Report
	if vrt.IsSymbolic() {
		v, ok := vjson.Lookup(bytes.TrimRight(nd.Data, "\n"))
		vrt.Assert(ok, "the object decodes")
		if !ok {
			return
		}
		got = v.(telemetry.Report)
	} else {
		vrt.Assert(realjson.Unmarshal(nd.Data, &got) == nil, "the object decodes")
	}
	vrt.Assert(got.Week == sent.Week && got.Config == sent.Config && math.Float64bits(got.X) == math.Float64bits(sent.X) && len(got.Programs) == len(sent.Programs), "the stored object decodes to the same report")
	for i := range got.Programs {
		a, b := got.Programs[i], sent.Programs[i]
		vrt.Assert(a.Program == b.Program && a.Version == b.Version && a.GoVersion == b.GoVersion && a.GOOS == b.GOOS && a.GOARCH == b.GOARCH && len(a.Counters) == len(b.Counters) && len(a.Stacks) == len(b.Stacks), "stored program reports are the ones sent")
		for k, v := range b.Counters {
			vrt.Assert(a.Counters[k] == v, "stored counters are the ones sent")
		}
		for k, v := range b.Stacks {
			vrt.Assert(a.Stacks[k] == v, "stored stacks are the ones sent")
		}
	}
}

// VC12_size: the request-size middleware hands the handler a body that cannot be read
// beyond the limit, whatever length the request declares (including none, as with chunked
// transfer encoding).
func VC12_size() {
	limit := int64(3)
	n := vrt.Choose(7)
	body := vrt.Bytes(n)
	var got int
	var rerr error
	inner := http.HandlerFunc(func(w http.ResponseWriter, r *http.Request) {
		b, err := io.ReadAll(r.Body)
		got, rerr = len(b), err
	})
	h := middleware.RequestSize(limit)(inner)
	req := &http.Request{Method: "POST", URL: &url.URL{Path: "/upload/x"}, Body: io.NopCloser(bytes.NewReader(body))}
	req.ContentLength = []int64{-1, 0, int64(n), 1}[vrt.Choose(4)]
	h.ServeHTTP(&c12rw{}, req)
	if int64(n) <= limit {
		vrt.Assert(rerr == nil && got == n, "a body within the limit is read in full")
	} else {
		vrt.Assert(rerr != nil, "a body over the size limit is refused")
		vrt.Assert(int64(got) <= limit, "no more than the limit is ever read")
	}
}

// VC12_overwrite: a valid report for a week and X under which an object already exists
// (an earlier upload of the same sample, longer or shorter than the new one): after the
// 200 the object decodes to the report just sent.
func VC12_overwrite() {
	vos.Reset()
	vjson.Reset()
	ctx := context.Background()
	bucket, err := storage.NewFSBucket(ctx, "/data", "up")
	vrt.Assert(err == nil, "bucket")
	if err != nil {
		return
	}
	ucfg := c12config(1)
	h := handleUpload(tconfig.NewConfig(ucfg), bucket)
	x := []float64{0.5, 0.25, 1e-7}[vrt.Choose(3)]
	sent := &telemetry.Report{Week: "2024-02-29", Config: "v1.2.3", X: x}
	if vrt.Bool() {
		sent.LastWeek = vrt.String(2)
	}
	var body []byte
	if !vrt.IsSymbolic() {
		body, _ = realjson.Marshal(sent)
	}
	vjson.DecodeHook = func(r io.Reader, dst any) error {
		*(dst.(*telemetry.Report)) = *sent
		return nil
	}
	// what an earlier upload left under the same name: 0, 1 or 3000 bytes
	objPath := "/data/up/2024-02-29/" + fmt.Sprintf("%g", x) + ".json"
	old := make([]byte, []int{0, 1, 3000}[vrt.Choose(3)])
	for i := range old {
		old[i] = 'o'
	}
	vos.AddDir("/data/up/2024-02-29")
	vos.AddFile(objPath, old)
	req := &http.Request{Method: "POST", URL: &url.URL{Path: "/upload/x"}, Body: io.NopCloser(bytes.NewReader(body))}
	rw := &c12rw{}
	content.HandlerFunc(h).ServeHTTP(rw, req)
	vrt.Assert(rw.code == 200, "a valid report is acknowledged with 200 (object already present)")
	nd := vos.Lookup(objPath)
	vrt.Assert(nd != nil, "the object exists")
	if nd == nil {
		return
	}
	var got telemetry.Report
	if vrt.IsSymbolic() {
		v, ok := vjson.Lookup(bytes.TrimRight(nd.Data, "\n"))
		vrt.Assert(ok, "after an overwrite the object decodes")
		if !ok {
			return
		}
		got = v.(telemetry.Report)
	} else {
		vrt.Assert(realjson.Unmarshal(nd.Data, &got) == nil, "after an overwrite the object decodes")
	}
	vrt.Assert(got.Week == sent.Week && got.Config == sent.Config && got.X == sent.X && got.LastWeek == sent.LastWeek && len(got.Programs) == 0, "after an overwrite the object decodes to the report just sent")
}
