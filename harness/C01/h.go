package upload

// Harness for C01 (uploaded reports contain only configuration-approved data) and the
// uploader half of C11. Overlaid into internal/upload; os, net/http, encoding/json and
// crypto/rand are import-substituted by the vrt shims.

import (
	realjson "encoding/json"
	"math"
	"time"

	"golang.org/x/telemetry/internal/counter"
	"golang.org/x/telemetry/internal/telemetry"
	"golang.org/x/telemetry/internal/vrt"
	"golang.org/x/telemetry/internal/vrt/vconfigstore"
	"golang.org/x/telemetry/internal/vrt/vcounter"
	"golang.org/x/telemetry/internal/vrt/vhttp"
	"golang.org/x/telemetry/internal/vrt/vjson"
	"golang.org/x/telemetry/internal/vrt/vos"
	"golang.org/x/telemetry/internal/vrt/vrand"
)

// ---- input construction ----

// vcX returns the report's random X: any multiple of 2^-52 in [0,1) (exactly the values
// computeRandom can produce), and arranges for computeRandom to return it.
func vcX() float64 {
	xb := vrt.U64()
	x := math.Float64frombits(xb)
	vrt.Assume(x >= 0 && x < 1)
	// multiple of 2^-52: with exponent field E, e = 1023-E, the low e mantissa bits are zero
	e := 1023 - (xb >> 52)
	mant := xb & (1<<52 - 1)
	vrt.Assume(xb != 0 && e <= 52 && mant&(uint64(1)<<e-1) == 0) // computeRandom never yields 0 (see VC11_random)
	if !vrt.IsSymbolic() {
		// computeRandom: frac in [0.5,1) from the random bits, X = frac*2-1
		frac := (x + 1) / 2
		bits := math.Float64bits(frac)
		b := make([]byte, 8)
		for i := 0; i < 8; i++ {
			b[i] = byte(bits >> (8 * i))
		}
		vrand.Next = b
	}
	vcRandomX = x
	return x
}

var vcRandomX float64

// vcComputeRandom replaces computeRandom under the engine (spec redirect): the float
// bit manipulation of the real function is not interpreted symbolically; natively the real
// function runs on vrand.Next and yields the same X.
func vcComputeRandom() float64 { return vcRandomX }

func vcNoBrace(s string) {
	for i := 0; i < len(s); i++ {
		vrt.Assume(s[i] != '{' && s[i] != '}' && s[i] != ',')
	}
}

func vcRate() float64 {
	r := vrt.F64()
	vrt.Assume(r >= 0 && r <= 1)
	return r
}

type vcInputs struct {
	cfg   *telemetry.UploadConfig
	files []*counter.File
	names []string
	x     float64
}

func vcStr(max int) string { return vrt.String(vrt.Choose(max + 1)) }

// vcConfig: nprog programs; each with one version list entry, a plain counter, a bucketed
// counter P{B1,B2} and one stack entry; arbitrary rates; one or two Go versions.
func vcConfig(nprog, slen int) *telemetry.UploadConfig {
	cfg := &telemetry.UploadConfig{}
	cfg.GoVersion = []string{vrt.String(slen)}
	cfg.GOOS = []string{"o"}
	cfg.GOARCH = []string{"a"}
	cfg.SampleRate = vcRate()
	for i := 0; i < nprog; i++ {
		p := &telemetry.ProgramConfig{Name: vrt.String(slen), Versions: []string{vrt.String(slen)}}
		plain := vrt.String(1 + vrt.Choose(slen+1))
		vcNoBrace(plain)
		pre := vrt.String(slen)
		vcNoBrace(pre)
		b1, b2 := vrt.String(1), vrt.String(1)
		vcNoBrace(b1)
		vcNoBrace(b2)
		p.Counters = []telemetry.CounterConfig{
			{Name: plain, Rate: vcRate()},
			{Name: pre + "{" + b1 + "," + b2 + "}", Rate: vcRate()},
		}
		st := vrt.String(slen)
		p.Stacks = []telemetry.CounterConfig{{Name: st, Rate: vcRate()}}
		cfg.Programs = append(cfg.Programs, p)
	}
	return cfg
}

// vcFile: a parsed counter file with arbitrary metadata and nctr counters with arbitrary
// names (any bytes, so stack names with newlines, braces, near-misses all occur).
func vcFile(nctr, slen, nlen int) *counter.File {
	f := &counter.File{Meta: map[string]string{}, Count: map[string]uint64{}}
	f.Meta["Program"] = vrt.String(slen)
	f.Meta["Version"] = vrt.String(slen)
	f.Meta["GoVersion"] = vrt.String(slen)
	f.Meta["GOOS"] = vrt.String(1)
	f.Meta["GOARCH"] = vrt.String(1)
	for i := 0; i < nctr; i++ {
		name := vrt.String(1 + vrt.Choose(nlen))
		for k := range f.Count {
			vrt.Assume(k != name)
		}
		v := vrt.U64()
		vrt.Assume(v < 1<<62)
		f.Count[name] = v
	}
	return f
}

const (
	vcDir    = "/t"
	vcExpiry = "2024-01-07"
)

func vcUploader(cfg *telemetry.UploadConfig, mode string) *uploader {
	vos.Reset()
	vhttp.Reset()
	vjson.Reset()
	vcounter.Reset()
	vconfigstore.Reset()
	vos.AddDir(vcDir + "/local")
	vos.AddDir(vcDir + "/upload")
	if mode != "" {
		vos.AddFile(vcDir+"/mode", []byte(mode))
	}
	vconfigstore.Config = cfg
	u, err := newUploader(RunConfig{TelemetryDir: vcDir, UploadURL: "http://srv", StartTime: time.Date(2024, 1, 10, 3, 4, 5, 0, time.UTC)})
	if err != nil {
		panic("newUploader: " + err.Error())
	}
	u.config, u.configVersion = cfg, "v1.2.3"
	return u
}

// ---- reference semantics of the upload configuration (nested loops, no maps) ----

func specCut(s string, c byte) (string, string, bool) {
	for i := 0; i < len(s); i++ {
		if s[i] == c {
			return s[:i], s[i+1:], true
		}
	}
	return s, "", false
}

// specCounterRate: is `name` approved for program prog, and at which rate (last entry wins).
func specCounterRate(cfg *telemetry.UploadConfig, prog, name string) (bool, float64) {
	ok, rate := false, 0.0
	for _, p := range cfg.Programs {
		if p.Name != prog {
			continue
		}
		for _, c := range p.Counters {
			pre, rest, has := specCut(c.Name, '{')
			if !has {
				if c.Name == name {
					ok, rate = true, c.Rate
				}
				continue
			}
			if len(rest) > 0 && rest[len(rest)-1] == '}' {
				rest = rest[:len(rest)-1]
			}
			for {
				b, more, has := specCut(rest, ',')
				if pre+b == name {
					ok, rate = true, c.Rate
				}
				if !has {
					break
				}
				rest = more
			}
		}
	}
	return ok, rate
}

func specStackRate(cfg *telemetry.UploadConfig, prog, name string) (bool, float64) {
	before, _, _ := specCut(name, '\n')
	ok, rate := false, 0.0
	for _, p := range cfg.Programs {
		if p.Name != prog {
			continue
		}
		for _, s := range p.Stacks {
			if s.Name == before {
				ok, rate = true, s.Rate
			}
		}
	}
	return ok, rate
}

func specProgramOK(cfg *telemetry.UploadConfig, prog, vers, gov string) bool {
	g := false
	for _, v := range cfg.GoVersion {
		if v == gov {
			g = true
		}
	}
	pv := false
	for _, p := range cfg.Programs {
		if p.Name == prog {
			for _, v := range p.Versions {
				if v == vers {
					pv = true
				}
			}
		}
	}
	return g && pv
}

func vcListed(list []string, s string) bool {
	for _, v := range list {
		if v == s {
			return true
		}
	}
	return false
}

func vcHasNL(s string) bool {
	for i := 0; i < len(s); i++ {
		if s[i] == '\n' {
			return true
		}
	}
	return false
}

// vcDecodeReport returns the report behind the bytes handed to the file system / server.
func vcDecodeReport(data []byte) *telemetry.Report {
	if vrt.IsSymbolic() {
		v, ok := vjson.Lookup(data)
		if !ok {
			return nil
		}
		return v.(*telemetry.Report)
	}
	var r telemetry.Report
	if err := realjson.Unmarshal(data, &r); err != nil {
		return nil
	}
	return &r
}

// VC01_report: one week, nfiles expired counter files, one run of createReport followed by
// uploadReport; every clause of C01 is asserted on the report that reaches the server.
func VC01_report() {
	slen := vrt.Param("slen", 1)
	nfiles := vrt.Param("files", 1)
	nctr := vrt.Param("counters", 2)
	cfg := vcConfig(vrt.Param("programs", 1), slen)
	// entries that expand to the same name carry the same rate (otherwise only "last wins" is defined)
	vcAssumeConsistent(cfg)
	u := vcUploader(cfg, "on 2020-01-01")
	x := vcX()
	var files []*counter.File
	var fnames []string
	for i := 0; i < nfiles; i++ {
		f := vcFile(nctr, slen, vrt.Param("namelen", 3))
		fn := vcDir + "/local/f" + string(rune('0'+i)) + ".v1.count"
		vos.AddFile(fn, []byte("x"+string(rune('0'+i))))
		vcounter.Register("x"+string(rune('0'+i)), f)
		files = append(files, f)
		fnames = append(fnames, fn)
	}
	start := time.Date(2024, 1, 1, 0, 0, 0, 0, time.UTC)
	fname, err := u.createReport(start, vcExpiry, fnames, "")
	if err != nil || fname == "" {
		// not uploadable (sample rate) or nothing to report: nothing may be posted
		vrt.Reach("no upload file")
		vrt.Assert(len(vhttp.Log) == 0, "no request without an uploadable report")
		if cfg.SampleRate > 0 && x > cfg.SampleRate {
			return
		}
		// with mode on, a recent week and X within the sample rate a report must be made
		vrt.Assert(err == nil && fname != "", "uploadable report is created")
		return
	}
	vrt.Assert(!(cfg.SampleRate > 0 && x > cfg.SampleRate), "X above a positive sample rate is not uploadable")
	n := vos.Lookup(fname)
	vrt.Assert(n != nil, "upload report file exists")
	if n == nil {
		return
	}
	written := n.Data
	u.uploadReport(fname)
	vrt.Assert(len(vhttp.Log) == 1, "exactly one request for the week")
	if len(vhttp.Log) != 1 {
		return
	}
	body := vhttp.Log[0].Body
	vrt.Assert(string(body) == string(written), "request body is the report file, unchanged")
	vrt.Assert(vhttp.Log[0].URL == "http://srv/"+vcExpiry, "request goes to <server>/<week>")
	r := vcDecodeReport(body)
	vrt.Assert(r != nil, "request body is a report")
	if r == nil {
		return
	}
	vrt.Reach("report posted")
	vrt.Assert(r.Week == vcExpiry && r.X == x && r.Config == "v1.2.3" && r.LastWeek == "", "report header fields")
	// (i)-(iii): everything present is approved
	for _, p := range r.Programs {
		vrt.Assert(specProgramOK(cfg, p.Program, p.Version, p.GoVersion), "listed program, version and Go version are configured")
		for k, v := range p.Counters {
			ok, rate := specCounterRate(cfg, p.Program, k)
			vrt.Assert(ok && x <= rate, "uploaded counter is configured for the program with rate >= X")
			vrt.Assert(v == vcSum(files, p, k), "uploaded counter value is the sum over the week's files of that build")
		}
		for k, v := range p.Stacks {
			ok, rate := specStackRate(cfg, p.Program, k)
			vrt.Assert(ok && x <= rate, "uploaded stack is configured (name before first newline) with rate >= X")
			vrt.Assert(v == vcSum(files, p, k), "uploaded stack value is the sum over the week's files of that build")
		}
	}
	// (v) completeness: every approved local counter with rate >= X is present
	for _, f := range files {
		// completeness is owed to builds the configuration approves in full: program,
		// version, Go version and - as the server and the viewer require, C11 - GOOS/GOARCH
		if !specProgramOK(cfg, f.Meta["Program"], f.Meta["Version"], f.Meta["GoVersion"]) || !vcListed(cfg.GOOS, f.Meta["GOOS"]) || !vcListed(cfg.GOARCH, f.Meta["GOARCH"]) {
			continue
		}
		var pr *telemetry.ProgramReport
		for _, p := range r.Programs {
			if p.Program == f.Meta["Program"] && p.Version == f.Meta["Version"] && p.GoVersion == f.Meta["GoVersion"] &&
				p.GOOS == f.Meta["GOOS"] && p.GOARCH == f.Meta["GOARCH"] {
				pr = p
			}
		}
		vrt.Assert(pr != nil, "approved build is present in the report")
		if pr == nil {
			continue
		}
		for k := range f.Count {
			if vcHasNL(k) {
				ok, rate := specStackRate(cfg, pr.Program, k)
				if ok && x <= rate {
					_, has := pr.Stacks[k]
					vrt.Assert(has, "approved stack with rate >= X is included")
				}
			} else {
				ok, rate := specCounterRate(cfg, pr.Program, k)
				if ok && x <= rate {
					_, has := pr.Counters[k]
					vrt.Assert(has, "approved counter with rate >= X is included")
				}
			}
		}
	}
}

// vcSum: sum of counter k over the files whose build identity equals p's.
func vcSum(files []*counter.File, p *telemetry.ProgramReport, k string) int64 {
	var s int64
	for _, f := range files {
		if f.Meta["Program"] == p.Program && f.Meta["Version"] == p.Version && f.Meta["GoVersion"] == p.GoVersion &&
			f.Meta["GOOS"] == p.GOOS && f.Meta["GOARCH"] == p.GOARCH {
			s += int64(f.Count[k])
		}
	}
	return s
}


type vcEntry struct {
	prog, name string
	rate       float64
}

// vcAssumeConsistent: all configuration entries (counters after expansion, and stacks) of
// one program name that resolve to the same name carry the same rate.
func vcAssumeConsistent(cfg *telemetry.UploadConfig) {
	var es []vcEntry
	for _, p := range cfg.Programs {
		for _, c := range p.Counters {
			pre, rest, has := specCut(c.Name, '{')
			if !has {
				es = append(es, vcEntry{p.Name, c.Name, c.Rate})
				continue
			}
			if len(rest) > 0 && rest[len(rest)-1] == '}' {
				rest = rest[:len(rest)-1]
			}
			for {
				b, more, has := specCut(rest, ',')
				es = append(es, vcEntry{p.Name, pre + b, c.Rate})
				if !has {
					break
				}
				rest = more
			}
		}
		for _, s := range p.Stacks {
			es = append(es, vcEntry{p.Name, s.Name, s.Rate})
		}
	}
	for i := range es {
		for j := 0; j < i; j++ {
			same := es[i].prog == es[j].prog && es[i].name == es[j].name
			vrt.Assume(!same || es[i].rate == es[j].rate)
		}
	}
}

// VC01_two: the same clauses with two files in the week (entry parameters choose the
// bounds): builds of one program that differ in version, Go version, GOOS or GOARCH get
// separate verdicts and separate sums.
func VC01_two() { VC01_report() }

// VC01_builds: a concrete one-program configuration and two files of the week whose
// build metadata are arbitrary: each build five-tuple gets its own verdict and its own sum
// (builds differing from the approved one in a single field, in either file order).
func VC01_builds() {
	cfg := &telemetry.UploadConfig{GOOS: []string{"o"}, GOARCH: []string{"a"}, GoVersion: []string{"g"}, SampleRate: 1,
		Programs: []*telemetry.ProgramConfig{{Name: "p", Versions: []string{"1"}, Counters: []telemetry.CounterConfig{{Name: "c", Rate: 1}}}}}
	u := vcUploader(cfg, "on 2020-01-01")
	vcRandomX = 0.5
	if !vrt.IsSymbolic() {
		vrand.Next = []byte{0, 0, 0, 0, 0, 0, 0xe8, 0x3f} // fraction 0.75: X = 0.5
	}
	var files []*counter.File
	var fnames []string
	for i := 0; i < 2; i++ {
		f := &counter.File{Meta: map[string]string{}, Count: map[string]uint64{}}
		for _, k := range []string{"Program", "Version", "GoVersion", "GOOS", "GOARCH"} {
			f.Meta[k] = vrt.String(1)
		}
		v := vrt.U64()
		vrt.Assume(v > 0 && v < 1<<62)
		f.Count["c"] = v
		fn := vcDir + "/local/f" + string(rune('0'+i)) + ".v1.count"
		vos.AddFile(fn, []byte("x"+string(rune('0'+i))))
		vcounter.Register("x"+string(rune('0'+i)), f)
		files = append(files, f)
		fnames = append(fnames, fn)
	}
	start := time.Date(2024, 1, 1, 0, 0, 0, 0, time.UTC)
	fname, err := u.createReport(start, vcExpiry, fnames, "")
	vrt.Assert(err == nil && fname != "", "the week's report is created")
	if err != nil || fname == "" {
		return
	}
	u.uploadReport(fname)
	vrt.Assert(len(vhttp.Log) == 1, "one request")
	if len(vhttp.Log) != 1 {
		return
	}
	r := vcDecodeReport(vhttp.Log[0].Body)
	vrt.Assert(r != nil, "request body is a report")
	if r == nil {
		return
	}
	ok := func(m map[string]string) bool {
		return m["Program"] == "p" && m["Version"] == "1" && m["GoVersion"] == "g" && m["GOOS"] == "o" && m["GOARCH"] == "a"
	}
	for _, p := range r.Programs {
		vrt.Assert(p.Program == "p" && p.Version == "1" && p.GoVersion == "g" && p.GOOS == "o" && p.GOARCH == "a", "only the approved build is uploaded")
		var sum int64
		for _, f := range files {
			if ok(f.Meta) {
				sum += int64(f.Count["c"])
			}
		}
		vrt.Assert(p.Counters["c"] == sum, "the uploaded value is the sum over the files of exactly that build")
	}
	for _, f := range files {
		if ok(f.Meta) {
			vrt.Assert(len(r.Programs) == 1, "the approved build is uploaded whatever other builds the week holds")
		}
	}
}

// VC01_rerun: one long-running process runs the uploader twice. At the first run the
// week's counter file is still active (its expiry lies ahead), so it is only looked at;
// the program keeps counting into it; the second run, after expiry, must upload the
// file's final values - the sum over the expired file as it is then, not as it was when
// an earlier run in the same process happened to look at it.
func VC01_rerun() {
	cfg := &telemetry.UploadConfig{GOOS: []string{"o"}, GOARCH: []string{"a"}, GoVersion: []string{"g"}, SampleRate: 1,
		Programs: []*telemetry.ProgramConfig{{Name: "p", Versions: []string{"1"}, Counters: []telemetry.CounterConfig{{Name: "c", Rate: 1}, {Name: "d", Rate: 1}}}}}
	u1 := vcUploader(cfg, "on 2020-01-01")
	vcRandomX = 0.5
	if !vrt.IsSymbolic() {
		vrand.Next = []byte{0, 0, 0, 0, 0, 0, 0xe8, 0x3f, 0, 0, 0, 0, 0, 0, 0xe8, 0x3f}
	}
	mk := func(c uint64, withD bool, d uint64) *counter.File {
		f := &counter.File{Meta: map[string]string{"Program": "p", "Version": "1", "GoVersion": "g", "GOOS": "o", "GOARCH": "a",
			"TimeBegin": "2024-01-01T00:00:00Z", "TimeEnd": "2024-01-08T00:00:00Z"}, Count: map[string]uint64{"c": c}}
		if withD {
			f.Count["d"] = d
		}
		return f
	}
	c1, c2, d2 := vrt.U64(), vrt.U64(), vrt.U64()
	vrt.Assume(c1 > 0 && c1 <= c2 && c2 < 1<<40 && d2 > 0 && d2 < 1<<40)
	fn := vcDir + "/local/p@1-g-o-a-2024-01-01.v1.count"
	vos.AddFile(fn, []byte("early"))
	vcounter.Register("early", mk(c1, false, 0))
	vcounter.Register("final", mk(c2, true, d2))
	// first run: 2024-01-05, the file is active
	u1.startTime = time.Date(2024, 1, 5, 3, 4, 5, 0, time.UTC)
	u1.Run()
	vrt.Assert(len(vhttp.Log) == 0, "nothing is uploaded while the week's file is active")
	vrt.Assert(vos.Lookup(fn) != nil, "an active counter file is left alone")
	// the program keeps counting; the file's final content
	vos.Lookup(fn).Data = []byte("final")
	// second run in the same process, after expiry
	u2, err := newUploader(RunConfig{TelemetryDir: vcDir, UploadURL: "http://srv", StartTime: time.Date(2024, 1, 10, 3, 4, 5, 0, time.UTC)})
	if err != nil {
		panic("newUploader: " + err.Error())
	}
	u2.Run()
	vrt.Assert(len(vhttp.Log) == 1, "the expired week is uploaded once")
	if len(vhttp.Log) != 1 {
		return
	}
	r := vcDecodeReport(vhttp.Log[0].Body)
	vrt.Assert(r != nil && len(r.Programs) == 1, "request body is a report with the one program")
	if r == nil || len(r.Programs) != 1 {
		return
	}
	vrt.Assert(r.Programs[0].Counters["c"] == int64(c2), "uploaded value = the expired file's value")
	vrt.Assert(r.Programs[0].Counters["d"] == int64(d2), "a counter first used after an earlier look at the file is uploaded")
}
