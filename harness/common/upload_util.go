package upload

// Helpers shared by the uploader-side harnesses (C02, C07, C08, C09). Overlaid into
// internal/upload next to the property's own harness file.

import (
	realjson "encoding/json"
	"math"
	"time"

	"golang.org/x/telemetry/internal/counter"
	"golang.org/x/telemetry/internal/telemetry"
	"golang.org/x/telemetry/internal/vrt"
	"golang.org/x/telemetry/internal/vrt/vconfigstore"
	"golang.org/x/telemetry/internal/vrt/vcounter"
	"golang.org/x/telemetry/internal/vrt/vhttp"
	"golang.org/x/telemetry/internal/vrt/vjson"
	"golang.org/x/telemetry/internal/vrt/vos"
	"golang.org/x/telemetry/internal/vrt/vrand"
)

const vuDir = "/t"

// vuReset installs an empty telemetry directory with local/ and upload/.
func vuReset() {
	vos.Reset()
	vhttp.Reset()
	vjson.Reset()
	vcounter.Reset()
	vconfigstore.Reset()
	vos.AddDir(vuDir + "/local")
	vos.AddDir(vuDir + "/upload")
}

// vuInstant is second `tod` of day `day` (days since 1970-01-01), UTC.
func vuInstant(day, tod int64) time.Time { return time.Unix(day*86400+tod, 0).UTC() }

// vuUploader builds an uploader the way newUploader does, minus config download and
// logging.
func vuUploader(cfg *telemetry.UploadConfig, start time.Time) *uploader {
	if cfg == nil {
		cfg = &telemetry.UploadConfig{}
	}
	// the real constructor (log file, caches and whatever else it sets up), then the
	// configuration under test whatever the mode file says
	vconfigstore.Config = cfg
	u, err := newUploader(RunConfig{TelemetryDir: vuDir, UploadURL: "http://srv", StartTime: start})
	if err != nil {
		panic("newUploader: " + err.Error())
	}
	u.config, u.configVersion = cfg, "v1.2.3"
	return u
}

// vuBuild is a program build five-tuple.
type vuBuild struct{ prog, vers, gov, goos, goarch string }

var vuBuilds = []vuBuild{
	{"example.com/a", "v1.0.0", "go1.23.1", "linux", "amd64"},
	{"example.com/b", "v2.0.0", "go1.23.1", "linux", "amd64"},
}

// vuAddCountFile installs a counter file spanning [beginDay, endDay) for the build with
// the given counters: the file exists in the file system and its parse result is
// registered with vcounter under the file's content token (counter.Parse itself is the subject of C06).
func vuAddCountFile(u *uploader, base string, beginDay, endDay int64, b vuBuild, counts map[string]uint64) string {
	path := vuDir + "/local/" + base + ".v1.count"
	vos.AddFile(path, []byte("count:"+base))
	f := &counter.File{Meta: map[string]string{}, Count: counts}
	f.Meta["TimeBegin"] = vrt.RFC3339Midnight(beginDay)
	f.Meta["TimeEnd"] = vrt.RFC3339Midnight(endDay)
	f.Meta["Program"] = b.prog
	f.Meta["Version"] = b.vers
	f.Meta["GoVersion"] = b.gov
	f.Meta["GOOS"] = b.goos
	f.Meta["GOARCH"] = b.goarch
	vcounter.Register("count:"+base, f)
	return path
}

// vuPreload gives a further uploader the same parse results (several uploaders over one
// directory).
func vuPreload(u, from *uploader) {
	// parse results are registered by file content (vcounter): nothing to copy
}

// vuReport decodes report bytes written to a file or sent to the server.
func vuReport(data []byte) *telemetry.Report {
	if vrt.IsSymbolic() {
		v, ok := vjson.Lookup(data)
		if !ok {
			return nil
		}
		r, _ := v.(*telemetry.Report)
		return r
	}
	var r telemetry.Report
	if err := realjson.Unmarshal(data, &r); err != nil {
		return nil
	}
	return &r
}

func vuHasPrefix(s, p string) bool { return len(s) >= len(p) && s[:len(p)] == p }
func vuHasSuffix(s, p string) bool { return len(s) >= len(p) && s[len(s)-len(p):] == p }

// vuLocalNames lists the live entries of local/ (base names).
func vuLocalNames() []string {
	var out []string
	pre := vuDir + "/local/"
	for _, n := range vos.Nodes {
		if !n.Gone && vuHasPrefix(n.Name, pre) {
			out = append(out, n.Name[len(pre):])
		}
	}
	return out
}

func vuExists(path string) bool { return vos.Lookup(path) != nil }

func vuContent(path string) string {
	n := vos.Lookup(path)
	if n == nil {
		return "<absent>"
	}
	return string(n.Data)
}

// vuX is the value computeRandom yields under the engine (spec redirect to
// vuComputeRandom; the real function's float bit manipulation is covered by C01's native
// replay path). Natively the real computeRandom runs.
var vuX = 0.5

func vuComputeRandom() float64 { return vuX }

// vuSetX makes the report's X equal x: under the engine through the redirect, natively
// by feeding computeRandom the random bytes that yield x (frac = (x+1)/2 in [0.5,1)).
func vuSetX(x float64) {
	vuX = x
	if !vrt.IsSymbolic() {
		bits := math.Float64bits((x + 1) / 2)
		b := make([]byte, 8)
		for i := 0; i < 8; i++ {
			b[i] = byte(bits >> (8 * i))
		}
		vrand.Next = b
	}
}
