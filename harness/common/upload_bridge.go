package upload

// Exported bridge for harnesses that live in other packages (server, viewer): runs the
// real uploader over the given parsed counter files and returns the report it sends.

import (
	"golang.org/x/telemetry/internal/counter"
	"golang.org/x/telemetry/internal/telemetry"
	"golang.org/x/telemetry/internal/vrt"
	"golang.org/x/telemetry/internal/vrt/vcounter"
	"golang.org/x/telemetry/internal/vrt/vhttp"
	"golang.org/x/telemetry/internal/vrt/vos"
	"golang.org/x/telemetry/internal/vrt/vrand"
)

// VerifUploadReport: mode on (opt-in long ago), one finished week ending 2024-01-07, run
// on 2024-01-10; X as given. Returns the report posted to the server, or nil if nothing
// was posted, and the number of requests made.
func VerifUploadReport(cfg *telemetry.UploadConfig, files []*counter.File, x float64) (*telemetry.Report, int) {
	vuReset()
	vos.AddFile(vuDir+"/mode", []byte("on 2000-01-01"))
	end := vrt.DaysFromCivil(2024, 1, 7)
	u := vuUploader(cfg, vuInstant(end+3, 11045))
	vuSetX(x)
	for i, f := range files {
		path := vuDir + "/local/f" + string(rune('0'+i)) + ".v1.count"
		tok := "x" + string(rune('0'+i))
		vos.AddFile(path, []byte(tok))
		if f.Meta == nil {
			f.Meta = map[string]string{}
		}
		f.Meta["TimeBegin"] = vrt.RFC3339Midnight(end - 7)
		f.Meta["TimeEnd"] = vrt.RFC3339Midnight(end)
		vcounter.Register(tok, f)
	}
	if err := u.Run(); err != nil {
		return nil, len(vhttp.Log)
	}
	if len(vhttp.Log) == 0 {
		return nil, 0
	}
	return vuReport(vhttp.Log[0].Body), len(vhttp.Log)
}

// VerifComputeRandom runs the real computeRandom on random bytes supplied by next (one
// call per draw).
func VerifComputeRandom(next func() []byte) float64 {
	vrand.Fn = next
	defer func() { vrand.Fn = nil }()
	return computeRandom()
}
