package counter

// Harness for C09 (counter-file week boundaries), counter side.

import (
	"runtime"
	"runtime/debug"
	"time"

	"golang.org/x/telemetry/internal/telemetry"
	"golang.org/x/telemetry/internal/vrt"
	"golang.org/x/telemetry/internal/vrt/vos"
	"golang.org/x/telemetry/internal/vrt/vtime"
)

const c9root = "/t"

func c9isSpace(b byte) bool {
	return b == ' ' || b == '\n' || b == '\t' || b == '\r' || b == '\v' || b == '\f'
}

// c9noUniSpace: the byte is not the lead byte of the UTF-8 encoding of a Unicode space
// (U+0085, U+00A0, U+1680, U+2000.., U+3000), which bytes.TrimSpace would also trim; the
// setting is a digit written by this package, so those inputs are left outside the claim.
func c9noUniSpace(b byte) bool { return b != 0xC2 && b != 0xE1 && b != 0xE2 && b != 0xE3 }

// c9setup installs a telemetry dir with a weekends file holding one arbitrary non-space
// byte followed by a newline and returns the weekday it stands for.
func c9setup(symbolicDay bool) int64 {
	vos.Reset()
	telemetry.Default = telemetry.NewDir(c9root)
	vos.AddDir(c9root + "/local")
	var wd byte
	if symbolicDay {
		wd = vrt.U8()
		vrt.Assume(!c9isSpace(wd) && c9noUniSpace(wd))
	} else {
		// one case per weekday: the span end is then a concrete instant (its textual
		// form goes into the file metadata; formatting a symbolic instant is calendar
		// arithmetic the solver does not finish, see DESIGN.md)
		wd = byte('0' + vrt.Choose(7))
	}
	vos.AddFile(c9root+"/local/weekends", []byte{wd, '\n'})
	return int64((wd - '0') % 7)
}

func c9clock(day, tod int64) {
	sec := day*86400 + tod
	CounterTime = func() time.Time { return time.Unix(sec, 0).UTC() }
}

// specEnd: the first day after `day` that falls on weekday wd.
func c9specEnd(day, wd int64) int64 {
	for k := int64(1); k <= 7; k++ {
		if vrt.Weekday(day+k) == wd {
			return day + k
		}
	}
	return -1
}

// VC09_span: counterSpan for every second of each pool day and every weekday byte.
func VC09_span() {
	want := c9setup(true)
	day := vrt.PoolDay(vrt.Param("run", 14))
	tod := vrt.SecondOfDay()
	c9clock(day, tod)
	begin, end, err := counterSpan()
	vrt.Assert(err == nil, "span: no error with a weekends file")
	if err != nil {
		return
	}
	b, e := begin.Unix(), end.Unix()
	vrt.Assert(b == day*86400, "span: begins at 00:00 UTC of the current day")
	vrt.Assert((e-b)%86400 == 0 && e-b >= 86400 && e-b <= 7*86400, "span: ends 1..7 days later at 00:00 UTC")
	vrt.Assert(e == c9specEnd(day, want)*86400, "span: ends on the first later day that is the configured weekday")
	vrt.Assert(begin.Location() == time.UTC && end.Location() == time.UTC, "span: UTC")
}

// VC09_weekend: the weekends file, present with arbitrary bytes, empty or absent.
func VC09_weekend() {
	vos.Reset()
	telemetry.Default = telemetry.NewDir(c9root)
	switch vrt.Choose(3) {
	case 0: // absent, directory may be missing too
		if vrt.Bool() {
			vos.AddDir(c9root + "/local")
		}
		wd, err := weekEnd()
		vrt.Assert(err == nil, "weekend: a missing file is created")
		vrt.Assert(wd >= 0 && wd <= 6, "weekend: created value is a weekday")
		nd := vos.Lookup(c9root + "/local/weekends")
		vrt.Assert(nd != nil && len(nd.Data) == 2 && nd.Data[0] == byte('0'+wd) && nd.Data[1] == '\n', "weekend: the created file records the returned day")
	case 1:
		vos.AddDir(c9root + "/local")
		n := vrt.Choose(vrt.Param("wlen", 3) + 1)
		content := vrt.Bytes(n)
		for i := 0; i < n; i++ {
			vrt.Assume(c9noUniSpace(content[i]))
		}
		vos.AddFile(c9root+"/local/weekends", content)
		orig := string(content)
		wd, err := weekEnd()
		first := -1
		for i := 0; i < n; i++ {
			if !c9isSpace(content[i]) {
				first = i
				break
			}
		}
		if first < 0 {
			vrt.Assert(err != nil, "weekend: an empty setting is an error")
			return
		}
		vrt.Assert(err == nil, "weekend: any non-empty setting is accepted")
		vrt.Assert(wd >= 0 && wd <= 6, "weekend: malformed bytes still yield a weekday")
		if b := content[first]; b >= '0' && b <= '6' {
			vrt.Assert(wd == time.Weekday(b-'0'), "weekend: a digit 0..6 means that weekday")
		}
		nd := vos.Lookup(c9root + "/local/weekends")
		vrt.Assert(nd != nil && string(nd.Data) == orig, "weekend: an existing setting is not rewritten")
	case 2: // unreadable and uncreatable
		vos.AddFile(c9root+"/local", []byte("x")) // local is a file: MkdirAll fails
		_, err := weekEnd()
		vrt.Assert(err != nil, "weekend: failure to create the setting is an error")
	}
}

var c9bi = &debug.BuildInfo{GoVersion: "go1.23.5", Path: "example.com/cmd/prog", Main: debug.Module{Path: "example.com/cmd", Version: "v1.2.3"}}

func c9fileName(beginDay int64) string {
	return c9root + "/local/prog@v1.2.3-go1.23.5-" + runtime.GOOS + "-" + runtime.GOARCH + "-" + vrt.DateStr(beginDay) + ".v1.count"
}

func c9countFiles() int {
	n := 0
	for _, nd := range vos.Nodes {
		if !nd.Gone && len(nd.Name) > 9 && nd.Name[len(nd.Name)-9:] == ".v1.count" {
			n++
		}
	}
	return n
}

// c9value reads a counter's value from a file by walking the documented layout.
func c9value(path, name string) (uint64, bool) {
	nd := vos.Lookup(path)
	if nd == nil {
		return 0, false
	}
	d := nd.Data
	rd32 := func(i uint32) uint32 {
		return uint32(d[i]) | uint32(d[i+1])<<8 | uint32(d[i+2])<<16 | uint32(d[i+3])<<24
	}
	hdrLen := rd32(28)
	h := uint32(2166136261)
	for i := 0; i < len(name); i++ {
		h = (h ^ uint32(name[i])) * 16777619
	}
	h = (h ^ (h >> 16)) % 512
	off := rd32(hdrLen + 4 + 4*h)
	for n := 0; off != 0 && n < 8; n++ {
		nl := rd32(off+8) & 0xffffff
		if string(d[off+16:off+16+nl]) == name {
			return uint64(rd32(off)) | uint64(rd32(off+4))<<32, true
		}
		off = rd32(off + 12)
	}
	return 0, false
}

func c9hasMeta(path string, beginDay, endDay int64) bool {
	nd := vos.Lookup(path)
	if nd == nil {
		return false
	}
	want := "TimeBegin: " + vrt.RFC3339Midnight(beginDay) + "\nTimeEnd: " + vrt.RFC3339Midnight(endDay) + "\nProgram: example.com/cmd/prog\nVersion: v1.2.3\nGoVersion: go1.23.5\n"
	d := nd.Data
	return len(d) > 32+len(want) && string(d[32:32+len(want)]) == want
}

// VC09_rotate: the first open creates the file named by the begin date whose metadata
// records the span; a later rotation check keeps the file while the clock is inside the
// same day, and once the recorded end is reached starts the next span's file, after which
// increments land only there.
func VC09_rotate() {
	wd := c9setup(false)
	day := vrt.PoolDay(vrt.Param("run", 7))
	end := c9specEnd(day, wd)
	c9clock(day, vrt.SecondOfDay())
	f := &file{buildInfo: c9bi}
	exp := f.rotate1()
	vrt.Assert(f.err == nil && f.current.Load() != nil, "rotate: the first open succeeds")
	if f.err != nil {
		return
	}
	vrt.Assert(exp.Unix() == end*86400, "rotate: expiry is the span end")
	name1 := c9fileName(day)
	vrt.Assert(vos.Lookup(name1) != nil && c9countFiles() == 1, "rotate: the file name carries the begin date")
	vrt.Assert(c9hasMeta(name1, day, end), "rotate: metadata records begin and end of the span")

	c := &Counter{name: "c", file: f}
	n1 := vrt.I64()
	vrt.Assume(n1 > 0 && n1 < 1<<33-1)
	c.Add(n1)
	v, ok := c9value(name1, "c")
	vrt.Assert(ok && v == uint64(n1), "rotate: increments land in the current file")

	// second look at the clock
	var day2 int64
	switch vrt.Choose(4) {
	case 0:
		day2 = day // still the same day: same span
	case 1:
		day2 = end // the recorded end is reached (any second of that day, including 00:00:00)
	case 2:
		day2 = end + 1 + int64(vrt.Choose(8))
	case 3:
		day2 = end - 1
	}
	c9clock(day2, vrt.SecondOfDay())
	exp2 := f.rotate1()
	vrt.Assert(f.err == nil, "rotate: rotation succeeds")
	if f.err != nil {
		return
	}
	n2 := vrt.I64()
	vrt.Assume(n2 > 0 && n2 < 1<<33-1)
	c.Add(n2)
	if day2 == day {
		vrt.Assert(c9countFiles() == 1 && exp2.Unix() == end*86400, "rotate: no new file inside the same span")
		v, ok := c9value(name1, "c")
		vrt.Assert(ok && v == uint64(n1+n2), "rotate: same span, same counter record")
		return
	}
	if day2 >= end {
		end2 := c9specEnd(day2, wd)
		name2 := c9fileName(day2)
		vrt.Assert(exp2.Unix() == end2*86400, "rotate: the next span ends on the next configured weekday")
		vrt.Assert(vos.Lookup(name2) != nil && c9countFiles() == 2, "rotate: reaching the recorded end starts the next span's file")
		vrt.Assert(c9hasMeta(name2, day2, end2), "rotate: the new file records the new span")
		v1, ok1 := c9value(name1, "c")
		v2, ok2 := c9value(name2, "c")
		vrt.Assert(ok1 && v1 == uint64(n1), "rotate: after rotation the old file no longer changes")
		vrt.Assert(ok2 && v2 == uint64(n2), "rotate: after rotation increments land only in the new file")
		return
	}
	// a later day before the end: whichever file is current, it must end at the same
	// instant (no count may be attributed to a different week)
	vrt.Assert(exp2.Unix() == end*86400, "rotate: a file opened later in the week ends at the same week end")
}

// VC09_span_tick: the same with a clock that moves: every reading is later than or equal
// to the one before and midnight may pass between any two readings inside the call. The
// span must be the right one for a single "today" - the day of one of the readings.
func VC09_span_tick() {
	want := c9setup(true)
	day := vrt.PoolDay(vrt.Param("run", 14))
	tod := vrt.SecondOfDay()
	crossed := false
	reads := 0
	CounterTime = func() time.Time {
		reads++
		if !crossed && reads > 1 && vrt.Bool() {
			crossed = true
			t2 := vrt.SecondOfDay()
			vrt.Assume(t2 < 60) // just after midnight
			tod = t2
		} else if reads > 1 {
			t2 := vrt.SecondOfDay()
			vrt.Assume(t2 >= tod)
			tod = t2
		}
		d := day
		if crossed {
			d = day + 1
		}
		return time.Unix(d*86400+tod, 0).UTC()
	}
	begin, end, err := counterSpan()
	vrt.Assert(err == nil, "span (moving clock): no error with a weekends file")
	if err != nil {
		return
	}
	b, e := begin.Unix(), end.Unix()
	okA := b == day*86400 && e == c9specEnd(day, want)*86400
	okB := crossed && b == (day+1)*86400 && e == c9specEnd(day+1, want)*86400
	vrt.Assert(okA || okB, "span (moving clock): begin and end belong to one and the same current day")
}

// VC09_timer: a process that stays up across several recorded ends, driven only by the
// timers rotate arms for itself: whenever a span's end has been reached there is a
// pending timer, and when it fires (at the end or a day late) the next span's file is
// started and increments land only there.
func VC09_timer() {
	wd := c9setup(false)
	day := vrt.PoolDay(vrt.Param("run", 7))
	c9clock(day, vrt.SecondOfDay())
	vtime.ResetTimers()
	f := &file{buildInfo: c9bi}
	f.rotate()
	vrt.Assert(f.err == nil && f.current.Load() != nil, "timer: the first open succeeds")
	if f.err != nil {
		return
	}
	c := &Counter{name: "c", file: f}
	cur := day
	files := 1
	for k := 0; k < vrt.Param("rotations", 3); k++ {
		end := c9specEnd(cur, wd)
		// the clock reaches the recorded end (or the day after); whatever timer the
		// process armed for itself fires then. Only the outcome is asserted - the next
		// span's file exists and takes the increments - not the mechanism.
		p := vtime.Pending()
		cur = end + int64(vrt.Choose(2))
		c9clock(cur, vrt.SecondOfDay())
		if len(p) > 0 {
			p[0].Fire()
		}
		vrt.Assert(f.err == nil, "timer: rotation succeeds")
		if f.err != nil {
			return
		}
		files++
		name := c9fileName(cur)
		n := vrt.I64()
		vrt.Assume(n > 0 && n < 1<<20)
		c.Add(n)
		vrt.Assert(vos.Lookup(name) != nil && c9countFiles() == files, "timer: once the recorded end is reached the process starts the next span's file")
		vrt.Assert(c9hasMeta(name, cur, c9specEnd(cur, wd)), "timer: the new file records the new span")
		v, ok := c9value(name, "c")
		vrt.Assert(ok && v == uint64(n), "timer: increments after the recorded end land in the new span's file")
	}
}
