package upload

// Harness for C09, uploader side: a counter file is finished exactly when its recorded
// end is before the run's start time, and is reported under the week named by that end.

import (
	"golang.org/x/telemetry/internal/vrt"
	"golang.org/x/telemetry/internal/vrt/vos"
)

func VC09_uploader() {
	vuReset()
	end := vrt.PoolDay(vrt.Param("run", 7))
	begin := end - 1 - int64(vrt.Choose(7))
	// the run starts on the end day or the day after at an arbitrary second, or in the last
	// second of the day before (the age computation for a start before the end date is a
	// signed 64-bit multiply/divide by 10^9 that no installed solver decides symbolically)
	var startDay, tod int64
	if c := vrt.Choose(3); c < 2 {
		startDay, tod = end+int64(c), vrt.SecondOfDay()
	} else {
		startDay, tod = end-1, 86399
	}
	if vrt.Bool() {
		vos.AddFile(vuDir+"/mode", []byte("on 2000-01-01"))
	} else {
		vos.AddFile(vuDir+"/mode", []byte("local"))
	}
	u := vuUploader(nil, vuInstant(startDay, tod))
	v := vrt.U64()
	vrt.Assume(v > 0 && v < 1<<62)
	path := vuAddCountFile(u, "f", begin, end, vuBuilds[0], map[string]uint64{"c": v})
	vos.Events = nil
	err := u.Run()
	vrt.Assert(err == nil, "uploader: run succeeds")

	finished := startDay > end || (startDay == end && tod > 0) // recorded end < start
	week := vrt.DateStr(end)
	local := vuDir + "/local/local." + week + ".json"
	if !finished {
		vrt.Assert(vuExists(path) && vuContent(path) == "count:f", "uploader: a file whose end is not before the start time is left untouched")
		for _, nm := range vuLocalNames() {
			vrt.Assert(!vuHasSuffix(nm, ".json"), "uploader: no report is made from an unfinished file")
		}
		vrt.Assert(len(vos.Events) == 0, "uploader: nothing is changed for an unfinished file")
		return
	}
	vrt.Reach("finished")
	vrt.Assert(vuExists(local), "uploader: a finished file is reported under the week named by its end date")
	vrt.Assert(!vuExists(path), "uploader: a reported file is removed")
	nrep := 0
	for _, nm := range vuLocalNames() {
		if vuHasPrefix(nm, "local.") && vuHasSuffix(nm, ".json") {
			nrep++
		}
	}
	vrt.Assert(nrep == 1, "uploader: exactly one weekly report")
	if n := vos.Lookup(local); n != nil {
		r := vuReport(n.Data)
		vrt.Assert(r != nil && r.Week == week, "uploader: the report's week is the file's end date")
		if r != nil {
			vrt.Assert(len(r.Programs) == 1 && r.Programs[0].Counters["c"] == int64(v), "uploader: the count is attributed to that week")
		}
	}
}
