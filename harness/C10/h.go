package counter

// Harness for C10 (v1 on-disk format). Overlaid into internal/counter; executed
// symbolically by /verif/engine and compiled natively for replay.

import (
	"hash/fnv"

	"golang.org/x/telemetry/internal/mmap"
	"golang.org/x/telemetry/internal/vrt"
)

// Layout constants restated from the format documentation (NOT taken from the package
// constants, so that a change of those is caught).
const (
	vPage     = 16 * 1024
	vUnit     = 32
	vNumHash  = 512
	vMaxName  = 4096
	vMaxMeta  = 512
	vPrefix   = "# telemetry/counter file v1\n"
	vTableLen = 4 + 4*vNumHash // limit word + heads
)

func vHdrLen() uint32 {
	// a valid header length: multiple of 32 in [32, 32+512+32]
	h := vrt.U32()
	vrt.Assume(h%32 == 0 && h >= 32 && h <= 576)
	return h
}

// VC10_place: record placement for EVERY (limit, name length, header length).
func VC10_place() {
	hdrLen := vHdrLen()
	limit := vrt.U32()
	n := vrt.Int()
	vrt.Assume(n >= 1 && n <= vMaxName)
	// documented precondition: the file offset arithmetic is 32 bit; stay 20 KiB below 2^32
	vrt.Assume(uint64(limit)+20*1024 < 1<<32)
	// limit is either 0 (fresh file) or at least the end of the hash table
	vrt.Assume(limit == 0 || limit >= hdrLen+vTableLen)
	m := &mappedFile{hdrLen: hdrLen}
	name := vrt.StringOfLen(n)
	start, end := m.place(limit, name)

	lim := uint64(limit)
	if limit == 0 {
		lim = uint64(hdrLen) + vTableLen
	}
	size := (uint64(16+n) + vUnit - 1) / vUnit * vUnit // independent rounding
	s, e := uint64(start), uint64(end)
	vrt.Assert(s >= lim, "place: record starts at or after the allocation limit / table end")
	vrt.Assert(s%vUnit == 0 && e%vUnit == 0, "place: record is 32-byte aligned")
	vrt.Assert(e-s == size, "place: record size is round(16+len(name),32)")
	vrt.Assert(e > s, "place: no 32-bit wrap-around")
	pageEnd := (s/vPage + 1) * vPage
	vrt.Assert(e <= pageEnd-4, "place: record does not touch the reserved last 4 bytes of its page")
	vrt.Assert(s-lim < vPage+vUnit, "place: at most one page is skipped")
	// minimality: either the record sits at the first aligned offset >= limit, or that
	// position would have reached the page tail and the record starts a new page.
	first := (lim + vUnit - 1) / vUnit * vUnit
	fits := first/vPage == (first+size)/vPage
	if fits {
		vrt.Assert(s == first, "place: first-fit position used when it fits")
	} else {
		vrt.Assert(s == (lim+vPage-1)/vPage*vPage, "place: otherwise the next page start is used")
	}
}

// VC10_header: header bytes for every metadata length 0..maxLen (content arbitrary).
func VC10_header() {
	maxLen := vrt.Param("max_meta", 40)
	n := vrt.Choose(maxLen + 1)
	if vrt.Param("include_cap", 1) == 1 && n == maxLen {
		// also exercise the cap boundary lengths
		n = 510 + vrt.Choose(4) // 510..513
	}
	meta := vrt.String(n)
	hdr, err := mappedHeader(meta)
	if n > vMaxMeta {
		vrt.Assert(err != nil && hdr == nil, "header: metadata above the cap is rejected")
		return
	}
	vrt.Assert(err == nil, "header: metadata within the cap is accepted")
	np := (len(vPrefix) + 3) / 4 * 4
	total := (np + 4 + n + 31) / 32 * 32
	vrt.Assert(len(hdr) == total, "header: total length is round(prefix+4+meta,32)")
	ok := true
	for i := 0; i < len(vPrefix); i++ {
		ok = ok && hdr[i] == vPrefix[i]
	}
	for i := len(vPrefix); i < np; i++ {
		ok = ok && hdr[i] == 0
	}
	vrt.Assert(ok, "header: fixed prefix")
	le := uint32(hdr[np]) | uint32(hdr[np+1])<<8 | uint32(hdr[np+2])<<16 | uint32(hdr[np+3])<<24
	vrt.Assert(le == uint32(total), "header: little-endian header length word")
	ok = true
	for i := 0; i < n; i++ {
		ok = ok && hdr[np+4+i] == meta[i]
	}
	vrt.Assert(ok, "header: metadata bytes verbatim")
	ok = true
	for i := np + 4 + n; i < total; i++ {
		ok = ok && hdr[i] == 0
	}
	vrt.Assert(ok, "header: zero padding")
}

// VC10_hash: hash == FNV-1a (stdlib hash/fnv as the independent reference) folded to 9 bits.
func VC10_hash() {
	maxLen := vrt.Param("max_name", 6)
	n := vrt.Choose(maxLen + 1)
	name := vrt.String(n)
	got := hash(name)
	h := fnv.New32a()
	h.Write([]byte(name))
	x := h.Sum32()
	want := (x ^ (x >> 16)) % vNumHash
	vrt.Assert(got == want, "hash: FNV-1a-32 xor-folded modulo 512")
	vrt.Assert(got < vNumHash, "hash: bucket index in range")
}

func vFile(size int) (*mappedFile, []byte) {
	data := make([]byte, size)
	hdrLen := vHdrLen()
	return &mappedFile{hdrLen: hdrLen, mapping: &mmap.Data{Data: data}}, data
}

// VC10_record: writeEntryAt/entryAt agree with the documented record layout at every
// in-range aligned offset.
func VC10_record() {
	m, data := vFile(2 * vPage)
	maxLen := vrt.Param("max_name", 4)
	n := 1 + vrt.Choose(maxLen)
	name := vrt.String(n)
	off := vrt.U32()
	vrt.Assume(off%vUnit == 0 && off >= m.hdrLen+vTableLen && uint64(off)+16+uint64(n) <= uint64(len(data)))
	val := vrt.U64()
	nxt := vrt.U32()
	next, v, ok := m.writeEntryAt(off, name)
	vrt.Assert(ok, "record: in-range write succeeds")
	next.Store(nxt)
	v.Store(val)
	// documented layout, read directly from the bytes
	o := int(off)
	rd32 := func(i int) uint32 {
		return uint32(data[i]) | uint32(data[i+1])<<8 | uint32(data[i+2])<<16 | uint32(data[i+3])<<24
	}
	vrt.Assert(uint64(rd32(o))|uint64(rd32(o+4))<<32 == val, "record: value at +0 (8 bytes LE)")
	vrt.Assert(rd32(o+8)&0x00ffffff == uint32(n), "record: name length at +8 (low 24 bits)")
	vrt.Assert(rd32(o+8)>>24 == 0xff, "record: 0xff marker in the top byte of the length word")
	vrt.Assert(rd32(o+12) == nxt, "record: next link at +12")
	same := true
	for i := 0; i < n; i++ {
		same = same && data[o+16+i] == name[i]
	}
	vrt.Assert(same, "record: name bytes at +16")
	// decode through the library
	ename, enext, ev, eok := m.entryAt(off)
	vrt.Assert(eok, "record: entryAt accepts what writeEntryAt wrote")
	vrt.Assert(string(ename) == name && enext == nxt && ev.Load() == val, "record: entryAt returns name, next and value")
}

// VC10_readback: a file consisting of the header the writer builds for this metadata, an
// empty hash table and a record for one counter is read back identically by Parse, for
// metadata lengths around every padding boundary (a length that is a multiple of 32
// leaves no padding byte at all) and at the cap.
func VC10_readback() {
	n := []int{0, 4, 31, 32, 33, 63, 64, 65, 480, 511, 512}[vrt.Choose(11)]
	meta := ""
	val := ""
	if n >= 4 {
		val = vrt.String(n - 4)
		for i := 0; i < len(val); i++ {
			vrt.Assume(val[i] != '\n' && val[i] != 0)
		}
		meta = "K: " + val + "\n"
	}
	hdr, err := mappedHeader(meta)
	vrt.Assert(err == nil, "readback: metadata within the cap is accepted")
	if err != nil {
		return
	}
	hdrLen := len(hdr)
	data := make([]byte, 16384) // files are whole pages
	copy(data, hdr)
	// concrete names (a symbolic name makes the bucket, and with it every table read,
	// symbolic): a short one, and one of the maximum length of 4096 bytes
	name := "cn"
	if vrt.Bool() {
		nb := make([]byte, 4096)
		for i := range nb {
			nb[i] = 'n'
		}
		name = string(nb)
	}
	v := vrt.U64()
	off := (hdrLen + vTableLen + 31) / 32 * 32
	m := &mappedFile{hdrLen: uint32(hdrLen), mapping: &mmap.Data{Data: data}}
	m.writeEntryAt(uint32(off), name)
	vPut64(data, off, v)
	vPut32(data, hdrLen+4+4*int(hash(name)), uint32(off))
	vPut32(data, hdrLen, uint32(off+(16+len(name)+31)/32*32))
	f, err := Parse("f", data)
	vrt.Assert(err == nil, "readback: Parse accepts the file the writer produced")
	if err != nil {
		return
	}
	if n >= 4 {
		vrt.Assert(len(f.Meta) == 1 && f.Meta["K"] == val, "readback: metadata read back identically")
	} else {
		vrt.Assert(len(f.Meta) == 0, "readback: empty metadata read back as empty")
	}
	got, ok := f.Count[name]
	vrt.Assert(len(f.Count) == 1 && ok && got == v, "readback: the counter is read back with its value")
}

func vPut32(b []byte, off int, v uint32) {
	b[off], b[off+1], b[off+2], b[off+3] = byte(v), byte(v>>8), byte(v>>16), byte(v>>24)
}

func vPut64(b []byte, off int, v uint64) {
	vPut32(b, off, uint32(v))
	vPut32(b, off+4, uint32(v>>32))
}
