package telemetry

// Harness for C02, mode file side: setting a valid mode and reading it back yields the
// same mode and date; an invalid mode is rejected and leaves the file unchanged.

import (
	"time"

	"golang.org/x/telemetry/internal/vrt"
	"golang.org/x/telemetry/internal/vrt/vos"
)

func c2tspace(b byte) bool {
	return b == ' ' || b == '\n' || b == '\t' || b == '\r' || b == '\v' || b == '\f'
}

func VC02_setmode() {
	vos.Reset()
	d := NewDir("/t")
	had := vrt.Bool()
	if had {
		vos.AddDir("/t")
		vos.AddFile("/t/mode", []byte("local 2020-02-02"))
	}
	day := vrt.PoolDay(vrt.Param("run", 3))
	var at time.Time
	if vrt.Bool() {
		at = time.Unix(day*86400+vrt.SecondOfDay(), 0)
	} else {
		// an instant expressed in a zone whose calendar date differs from the UTC date
		// (the recorded date is the UTC date: every comparison downstream is in UTC)
		tod := []int64{3600, 43200, 82800}[vrt.Choose(3)]
		zone := []*time.Location{time.FixedZone("w", -5*3600), time.FixedZone("e", 9*3600)}[vrt.Choose(2)]
		at = time.Unix(day*86400+tod, 0).In(zone)
	}
	vos.Events = nil
	if vrt.Bool() {
		pads := []string{"", " ", "\n", "\t "}
		m := []string{"on", "off", "local"}[vrt.Choose(3)]
		arg := pads[vrt.Choose(4)] + m + pads[vrt.Choose(4)]
		err := d.SetModeAsOf(arg, at)
		vrt.Assert(err == nil, "a valid mode is accepted")
		got, asof := d.Mode()
		vrt.Assert(got == m, "reading back yields the mode that was set")
		vrt.Assert(asof.Unix() == day*86400, "reading back yields the date it was set on")
		nd := vos.Lookup("/t/mode")
		vrt.Assert(nd != nil && string(nd.Data) == m+" "+vrt.DateStr(day), "the mode file holds mode and date")
		return
	}
	arg := vrt.String(vrt.Choose(vrt.Param("arg_len", 4) + 1))
	i, j := 0, len(arg)
	for k := 0; k < len(arg); k++ {
		vrt.Assume(arg[k] != 0xC2 && arg[k] != 0xE1 && arg[k] != 0xE2 && arg[k] != 0xE3)
	}
	for i < j && c2tspace(arg[i]) {
		i++
	}
	for j > i && c2tspace(arg[j-1]) {
		j--
	}
	t := arg[i:j]
	vrt.Assume(t != "on" && t != "off" && t != "local")
	err := d.SetModeAsOf(arg, at)
	vrt.Assert(err != nil, "an invalid mode is rejected")
	vrt.Assert(len(vos.Events) == 0, "a rejected mode changes nothing")
	if had {
		nd := vos.Lookup("/t/mode")
		vrt.Assert(nd != nil && string(nd.Data) == "local 2020-02-02", "a rejected mode leaves the file unchanged")
	}
}
