package upload

// Harness for C02, uploader side: nothing is uploaded or made uploadable beyond what the
// consent mode, the 21-day limit, the sample rate and the opt-in date allow.

import (
	"math"

	"golang.org/x/telemetry/internal/telemetry"
	"golang.org/x/telemetry/internal/vrt"
	"golang.org/x/telemetry/internal/vrt/vhttp"
	"golang.org/x/telemetry/internal/vrt/vos"
)

func c2space(b byte) bool {
	return b == ' ' || b == '\n' || b == '\t' || b == '\r' || b == '\v' || b == '\f'
}

// c2specMode: reference reading of the mode file. content is what the file holds
// (present=false: no readable file). dateDay/dateOK describe the date text after the first
// blank when the harness wrote a valid one.
func c2specMode(content string, present bool, dateDay int64, dateOK bool) (mode string, asof int64, hasAsof bool) {
	if !present {
		return "local", 0, false
	}
	i, j := 0, len(content)
	for i < j && c2space(content[i]) {
		i++
	}
	for j > i && c2space(content[j-1]) {
		j--
	}
	s := content[i:j]
	for k := 0; k < len(s); k++ {
		if s[k] == ' ' {
			return s[:k], dateDay, dateOK
		}
	}
	return s, 0, false
}

// c2mode chooses the mode file: absent, one of the three modes with or without a date, or
// arbitrary bytes. relDay is the day the optional date is taken relative to.
func c2mode(relDay int64) (content string, present bool, dateDay int64, dateOK bool) {
	switch vrt.Choose(4) {
	case 0:
		return "", false, 0, false
	case 1:
		return []string{"on", "off", "local"}[vrt.Choose(3)], true, 0, false
	case 2:
		m := []string{"on", "off", "local"}[vrt.Choose(3)]
		d := relDay + []int64{-1, 0, 1, 10}[vrt.Choose(4)]
		return m + " " + vrt.DateStr(d), true, d, true
	}
	s := vrt.String(vrt.Choose(vrt.Param("mode_len", 3) + 1))
	for i := 0; i < len(s); i++ {
		// no lead byte of a UTF-8 encoded Unicode space (TrimSpace model is ASCII)
		vrt.Assume(s[i] != 0xC2 && s[i] != 0xE1 && s[i] != 0xE2 && s[i] != 0xE3)
	}
	return s, true, 0, false
}

func c2rate() float64 {
	r := vrt.F64()
	vrt.Assume(r >= 0 && r <= 1)
	return r
}

// c2x: any multiple of 2^-52 in [0,1), as computeRandom produces.
func c2x() float64 {
	xb := vrt.U64()
	x := math.Float64frombits(xb)
	vrt.Assume(x >= 0 && x < 1)
	e := 1023 - (xb >> 52)
	mant := xb & (1<<52 - 1)
	vrt.Assume(xb != 0 && e <= 52 && mant&(uint64(1)<<e-1) == 0) // computeRandom never yields 0 (see VC11_random)
	vuSetX(x)
	return x
}

func c2dataEvents() int {
	n := 0
	for _, ev := range vos.Events {
		if vuHasSuffix(ev.Path, ".count") || vuHasSuffix(ev.Path, ".json") {
			n++
		}
	}
	return n
}

func c2created(path string) bool {
	for _, ev := range vos.Events {
		if ev.Op == "create" && ev.Path == path {
			return true
		}
	}
	return false
}

// VC02_fresh: one week of counter data and one uploader run.
func VC02_fresh() {
	vuReset()
	end := []int64{vrt.DaysFromCivil(2024, 1, 7), vrt.DaysFromCivil(2024, 3, 1), vrt.DaysFromCivil(2023, 12, 31)}[vrt.Choose(3)]
	begin := end - 7
	content, present, dateDay, dateOK := c2mode(begin)
	if present {
		vos.AddFile(vuDir+"/mode", []byte(content))
	}
	mode, asof, hasAsof := c2specMode(content, present, dateDay, dateOK)
	cfg := &telemetry.UploadConfig{SampleRate: c2rate()}
	startDay := end + []int64{0, 1, 21, 22}[vrt.Choose(4)]
	tod := vrt.SecondOfDay()
	x := c2x()
	u := vuUploader(cfg, vuInstant(startDay, tod))
	v := vrt.U64()
	vrt.Assume(v > 0 && v < 1<<62)
	path := vuAddCountFile(u, "f", begin, end, vuBuilds[0], map[string]uint64{"c": v})
	// optionally a second file of the same week that began later and sorts first
	if vrt.Bool() {
		vuAddCountFile(u, "a", begin+3, end, vuBuilds[1], map[string]uint64{"d": 1})
	}
	// the week may already have been uploaded by an earlier run
	already := vrt.Bool()
	if already {
		vos.AddFile(vuDir+"/upload/"+vrt.DateStr(end)+".json", []byte("U"))
	}
	vos.Events = nil
	err := u.Run()
	vrt.Assert(err == nil, "run succeeds")

	week := vrt.DateStr(end)
	local := vuDir + "/local/local." + week + ".json"
	ready := vuDir + "/local/" + week + ".json"
	expired := startDay > end || tod > 0
	age := (startDay-end)*86400 + tod
	uploadable := mode == "on" && expired && age <= 21*86400 &&
		!(cfg.SampleRate > 0 && x > cfg.SampleRate) && (!hasAsof || asof < begin)

	if len(vhttp.Log) > 0 {
		vrt.Assert(mode == "on", "a request is made only when the recorded mode is exactly on")
	}
	if mode == "off" {
		vrt.Assert(c2dataEvents() == 0 && len(vhttp.Log) == 0, "mode off: the uploader touches no counter file or report")
		vrt.Assert(vuContent(path) == "count:f", "mode off: counter file unchanged")
		return
	}
	if !expired {
		vrt.Assert(c2dataEvents() == 0 && len(vhttp.Log) == 0, "an unfinished week is left alone")
		return
	}
	if already {
		vrt.Assert(len(vhttp.Log) == 0 && !c2created(local) && !c2created(ready), "a week that was already uploaded is neither reported nor sent again")
		vrt.Assert(vuContent(vuDir+"/upload/"+week+".json") == "U", "the uploaded copy is unchanged")
		return
	}
	vrt.Reach("expired")
	vrt.Assert(c2created(local), "every mode but off builds the local report")
	vrt.Assert(c2created(ready) == uploadable, "a week is made uploadable exactly under mode on, 21 days, sample rate and opt-in date")
	vrt.Assert((len(vhttp.Log) == 1) == uploadable && len(vhttp.Log) <= 1, "an uploadable week is sent once, anything else is not sent")
	if len(vhttp.Log) == 1 {
		vrt.Assert(vhttp.Log[0].URL == "http://srv/"+week, "the request names the week")
		vrt.Assert(vuExists(vuDir+"/upload/"+week+".json") && !vuExists(ready), "an acknowledged report is recorded as uploaded")
	}
	vrt.Assert(!vuExists(path), "the folded counter file is removed")
}

// VC02_leftover: a report left in local/ by an earlier run.
func VC02_leftover() {
	vuReset()
	today := []int64{vrt.DaysFromCivil(2024, 1, 10), vrt.DaysFromCivil(2024, 3, 1)}[vrt.Choose(2)]
	d := today + []int64{-30, -1, 0, 1, 2}[vrt.Choose(5)]
	content, present, dateDay, dateOK := c2mode(d)
	if present {
		vos.AddFile(vuDir+"/mode", []byte(content))
	}
	mode, asof, hasAsof := c2specMode(content, present, dateDay, dateOK)
	week := vrt.DateStr(d)
	name := vuDir + "/local/" + week + ".json"
	vos.AddFile(name, []byte("R"))
	vos.AddFile(vuDir+"/local/local."+week+".json", []byte("L"))
	u := vuUploader(&telemetry.UploadConfig{}, vuInstant(today, vrt.SecondOfDay()))
	vos.Events = nil
	err := u.Run()
	vrt.Assert(err == nil, "run succeeds")
	sent := mode == "on" && d <= today && (!hasAsof || asof < d)
	vrt.Assert((len(vhttp.Log) == 1) == sent && len(vhttp.Log) <= 1, "a leftover report is sent exactly when the mode is on, its week is not in the future and it ends after the opt-in date")
	if len(vhttp.Log) == 1 {
		vrt.Assert(string(vhttp.Log[0].Body) == "R" && vhttp.Log[0].URL == "http://srv/"+week, "the leftover report is sent unchanged under its week")
	} else {
		vrt.Assert(vuContent(name) == "R", "an unsent report stays in place")
	}
	vrt.Assert(vuContent(vuDir+"/local/local."+week+".json") == "L", "local reports are never sent or changed")
	if mode == "off" {
		vrt.Assert(c2dataEvents() == 0, "mode off: nothing is touched")
	}
}
