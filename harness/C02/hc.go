package counter

// Harness for C02, counter side: with mode off the counter API creates, changes and
// removes nothing.

import (
	"golang.org/x/telemetry/internal/telemetry"
	"golang.org/x/telemetry/internal/vrt"
	"golang.org/x/telemetry/internal/vrt/vos"
)

func VC02_counter() {
	vos.Reset()
	telemetry.Default = telemetry.NewDir("/t")
	vos.AddDir("/t/local")
	vos.AddFile("/t/local/weekends", []byte("3\n"))
	vos.AddFile("/t/local/old.v1.count", []byte("old"))
	off := false
	switch vrt.Choose(5) {
	case 0:
		vos.AddFile("/t/mode", []byte("off"))
		off = true
	case 1:
		vos.AddFile("/t/mode", []byte("off 2024-01-01"))
		off = true
	case 2:
		vos.AddFile("/t/mode", []byte(" off\n"))
		off = true
	case 3:
		vos.AddFile("/t/mode", []byte("local"))
	case 4:
		vos.AddFile("/t/mode", []byte("offf"))
	}
	vos.Events = nil
	viaOpen := vrt.Bool()
	var c *Counter
	if viaOpen {
		Open(false)
		c = New("x")
	} else {
		f := &file{}
		f.rotate1()
		c = &Counter{name: "x", file: f}
	}
	n := vrt.I64()
	vrt.Assume(n > 0 && n < 1<<33-1)
	c.Add(n)
	c.Inc()
	if off {
		vrt.Assert(len(vos.Events) == 0, "mode off: the counter API creates and writes nothing")
		vrt.Assert(c.file.current.Load() == nil, "mode off: no counter file is opened")
		nd := vos.Lookup("/t/local/old.v1.count")
		vrt.Assert(nd != nil && string(nd.Data) == "old", "mode off: existing counter files untouched")
		return
	}
	vrt.Reach("recording")
	made := 0
	for _, ev := range vos.Events {
		if ev.Op == "create" {
			made++
		}
	}
	vrt.Assert(made == 1 && c.file.current.Load() != nil, "any other mode records into a counter file")
}
