package main

// Harness for C13 (merging and charting count every stored report exactly once).

import (
	"bytes"
	"context"
	realjson "encoding/json"
	"errors"
	"io"
	"math"
	"net/http"
	"net/url"

	"golang.org/x/telemetry/godev/internal/content"
	"golang.org/x/telemetry/godev/internal/storage"
	tconfig "golang.org/x/telemetry/internal/config"
	"golang.org/x/telemetry/internal/telemetry"
	"golang.org/x/telemetry/internal/vrt"
	"golang.org/x/telemetry/internal/vrt/vjson"
	"golang.org/x/telemetry/internal/vrt/vos"
)

type c13rw struct {
	code int
	hdr  http.Header
	body []byte
}

func (w *c13rw) Header() http.Header {
	if w.hdr == nil {
		w.hdr = http.Header{}
	}
	return w.hdr
}
func (w *c13rw) Write(b []byte) (int, error) {
	if w.code == 0 {
		w.code = 200
	}
	w.body = append(w.body, b...)
	return len(b), nil
}
func (w *c13rw) WriteHeader(c int) {
	if w.code == 0 {
		w.code = c
	}
}

var (
	c13versions  = []string{"v1.0.0", "v1.1.0"}
	c13goos      = []string{"linux", "darwin"}
	c13goarch    = []string{"amd64", "arm64"}
	c13goversion = []string{"go1.21.0", "go1.21.4", "go1.22.1"}
	c13programs  = []string{"example.com/p", "example.com/other"}
	c13counters  = []string{"c:x", "c:y", "c:z", "d"}
)

func c13cfg() *tconfig.Config {
	return tconfig.NewConfig(&telemetry.UploadConfig{
		GOOS: c13goos, GOARCH: c13goarch, GoVersion: c13goversion,
		Programs: []*telemetry.ProgramConfig{{Name: c13programs[0], Versions: c13versions,
			Counters: []telemetry.CounterConfig{{Name: "c:{x,y}", Rate: 1}, {Name: "d", Rate: 1}}}},
	})
}

// c13report: one report with an arbitrary X, a week from a pool of two and one program
// report drawn from pools (in or out of the configuration), with one counter.
func c13report() telemetry.Report {
	x := math.Float64frombits(vrt.U64())
	vrt.Assume(!math.IsNaN(x) && !math.IsInf(x, 0))
	r := telemetry.Report{Week: []string{"2024-01-07", "2024-01-14"}[vrt.Choose(2)], X: x, Config: "v1.2.3"}
	p := &telemetry.ProgramReport{
		Program:   c13programs[vrt.Choose(2)],
		Version:   c13versions[vrt.Choose(vrt.Param("versions", 1))],
		GOOS:      c13goos[vrt.Choose(2)],
		GOARCH:    c13goarch[0],
		GoVersion: c13goversion[vrt.Choose(3)],
		Counters:  map[string]int64{c13counters[vrt.Choose(len(c13counters))]: int64(vrt.U32())},
	}
	r.Programs = []*telemetry.ProgramReport{p}
	return r
}

func c13major(v string) string { return v[:6] } // go1.21.4 -> go1.21 (pool versions only)

// c13expected: the number of distinct X among the reports whose program is prog and that
// carry bucket `key` of chart `chartName` (after normalisation for Go versions).
func c13expected(reports []telemetry.Report, prog, chartName, key string) int {
	n := 0
	for i, r := range reports {
		has := false
		for _, p := range r.Programs {
			if p.Program != prog {
				continue
			}
			switch chartName {
			case "Version":
				has = has || p.Version == key
			case "GOOS":
				has = has || p.GOOS == key
			case "GOARCH":
				has = has || p.GOARCH == key
			case "GoVersion":
				has = has || c13major(p.GoVersion) == key
			default:
				for c := range p.Counters {
					g, b := splitCounterName(c)
					has = has || (string(g) == chartName && string(b) == key)
				}
			}
		}
		if !has {
			continue
		}
		dup := false
		for j := 0; j < i; j++ {
			if reports[j].X == r.X {
				// an earlier report with the same ID that also carries the bucket
				for _, p := range reports[j].Programs {
					if p.Program != prog {
						continue
					}
					switch chartName {
					case "Version":
						dup = dup || p.Version == key
					case "GOOS":
						dup = dup || p.GOOS == key
					case "GOARCH":
						dup = dup || p.GOARCH == key
					case "GoVersion":
						dup = dup || c13major(p.GoVersion) == key
					default:
						for c := range p.Counters {
							g, b := splitCounterName(c)
							dup = dup || (string(g) == chartName && string(b) == key)
						}
					}
				}
			}
		}
		if !dup {
			n++
		}
	}
	return n
}

func c13equalCharts(a, b *chartdata) bool {
	if a.NumReports != b.NumReports || a.DateRange != b.DateRange || len(a.Programs) != len(b.Programs) {
		return false
	}
	for i := range a.Programs {
		pa, pb := a.Programs[i], b.Programs[i]
		if pa.ID != pb.ID || pa.Name != pb.Name || len(pa.Charts) != len(pb.Charts) {
			return false
		}
		for j := range pa.Charts {
			ca, cb := pa.Charts[j], pb.Charts[j]
			if ca.ID != cb.ID || ca.Name != cb.Name || ca.Type != cb.Type || len(ca.Data) != len(cb.Data) {
				return false
			}
			for k := range ca.Data {
				if *ca.Data[k] != *cb.Data[k] {
					return false
				}
			}
		}
	}
	return true
}

// VC13_charts: group+charts over a set of reports: counts against a naive reference, and
// the same output for a permutation of the reports and any map iteration order.
func VC13_charts() {
	cfg := c13cfg()
	n := vrt.Param("reports", 2)
	var reports []telemetry.Report
	var xs []float64
	for i := 0; i < n; i++ {
		r := c13report()
		reports = append(reports, r)
		xs = append(xs, r.X)
	}
	got := charts(cfg, "2024-01-07", "2024-01-14", group(reports), xs)
	vrt.Assert(got.NumReports == n, "the reported number of reports equals their count")
	vrt.Assert(len(got.Programs) == 1 && got.Programs[0].Name == c13programs[0], "one entry per configured program")
	for _, ch := range got.Programs[0].Charts {
		for _, d := range ch.Data {
			want := c13expected(reports, c13programs[0], ch.Name, d.Key)
			vrt.Assert(d.Value == float64(want), "each partition value is the number of distinct report IDs that carry the bucket")
		}
		for k := 1; k < len(ch.Data); k++ {
			vrt.Assert(ch.Data[k-1].Key != ch.Data[k].Key, "one data point per bucket")
		}
	}
	// every bucket that some report carries is charted
	for _, r := range reports {
		for _, p := range r.Programs {
			if p.Program != c13programs[0] {
				continue
			}
			found := false
			for _, ch := range got.Programs[0].Charts {
				if ch.Name == "GOOS" {
					for _, d := range ch.Data {
						if d.Key == p.GOOS && d.Value >= 1 {
							found = true
						}
					}
				}
			}
			vrt.Assert(found, "a report's build is counted in the GOOS partition")
		}
	}
	// determinism: reversed report list and arbitrary map iteration order
	var rev []telemetry.Report
	var rxs []float64
	for i := n - 1; i >= 0; i-- {
		rev = append(rev, reports[i])
		rxs = append(rxs, reports[i].X)
	}
	if vrt.Param("maporder", 0) != 0 {
		vrt.MapOrderSymbolic(true)
	}
	again := charts(cfg, "2024-01-07", "2024-01-14", group(rev), rxs)
	vrt.MapOrderSymbolic(false)
	vrt.Assert(c13equalCharts(got, again), "the chart output does not depend on the order of reports or of map iteration")
}

func c13api() *storage.API {
	ctx := context.Background()
	up, _ := storage.NewFSBucket(ctx, "/data", "upload")
	mg, _ := storage.NewFSBucket(ctx, "/data", "merged")
	ch, _ := storage.NewFSBucket(ctx, "/data", "chart")
	return &storage.API{Upload: up, Merge: mg, Chart: ch}
}

func c13put(b storage.BucketHandle, name string, r telemetry.Report) {
	w, err := b.Object(name).NewWriter(context.Background())
	if err != nil {
		vrt.Stop()
	}
	if vrt.IsSymbolic() {
		vjson.NewEncoder(w).Encode(r)
	} else {
		realjson.NewEncoder(w).Encode(r)
	}
	w.Close()
}

// VC13_merge: merging a day yields exactly one record per stored report of that day;
// charting reads every merged report; a missing day is reported as not found.
func VC13_merge() {
	vos.Reset()
	vjson.Reset()
	api := c13api()
	cfg := c13cfg()
	day, other := "2024-01-07", "2024-01-08"
	k := vrt.Choose(vrt.Param("maxreports", 3) + 1)
	var stored []telemetry.Report
	for i := 0; i < k; i++ {
		r := telemetry.Report{Week: day, X: float64(i+1) / 8, Config: "v1.2.3"}
		// zero or one program report; the counter key differs from report to report
		if vrt.Bool() {
			r.Programs = []*telemetry.ProgramReport{{Program: c13programs[0], Version: c13versions[0], GOOS: c13goos[0], GOARCH: c13goarch[0], GoVersion: c13goversion[0],
				Counters: map[string]int64{c13counters[i%len(c13counters)]: int64(vrt.U32())}}}
			if vrt.Bool() {
				r.Programs[0].Stacks = map[string]int64{"s\nf" + string(rune('0'+i)): 1}
			}
		}
		stored = append(stored, r)
		c13put(api.Upload, day+"/"+string(rune('a'+i))+".json", r)
	}
	if vrt.Bool() {
		c13put(api.Upload, other+"/z.json", telemetry.Report{Week: other, X: 0.75})
	}
	vjson.DecodeHook = func(r io.Reader, dst any) error {
		b, _ := io.ReadAll(r)
		for len(b) > 0 && b[len(b)-1] == '\n' {
			b = b[:len(b)-1]
		}
		v, ok := vjson.Lookup(b)
		if !ok {
			return errors.New("bad json")
		}
		src := v.(telemetry.Report)
		c13decodeInto(dst.(*telemetry.Report), &src)
		return nil
	}
	vjson.UnmarshalHook = func(data []byte, dst any) error {
		v, ok := vjson.Lookup(data)
		if !ok {
			return errors.New("bad json")
		}
		src := v.(telemetry.Report)
		c13decodeInto(dst.(*telemetry.Report), &src)
		return nil
	}
	encBefore := len(vjson.Log)
	rw := &c13rw{}
	req := &http.Request{Method: "GET", URL: &url.URL{Path: "/merge/", RawQuery: "date=" + day}}
	content.HandlerFunc(handleMerge(api)).ServeHTTP(rw, req)
	vrt.Assert(rw.code == 200, "merge succeeds")
	if vrt.IsSymbolic() {
		vrt.Assert(len(vjson.Log)-encBefore == k, "merging encodes exactly one record per report stored for the day")
	}
	// every merged record is the stored report (same order as the listing: a, b, c)
	if mnd := vos.Lookup("/data/merged/" + day + ".json"); k > 0 {
		vrt.Assert(mnd != nil, "merged object written")
		if mnd != nil {
			lines := bytes.Split(bytes.TrimRight(mnd.Data, "\n"), []byte("\n"))
			vrt.Assert(len(lines) == k, "the merged object holds one line per stored report")
			for i := 0; i < k && i < len(lines); i++ {
				var got telemetry.Report
				if vrt.IsSymbolic() {
					v, ok := vjson.Lookup(lines[i])
					vrt.Assert(ok, "a merged line decodes")
					if !ok {
						continue
					}
					got = v.(telemetry.Report)
				} else {
					vrt.Assert(realjson.Unmarshal(lines[i], &got) == nil, "a merged line decodes")
				}
				vrt.Assert(c13sameReport(&got, &stored[i]), "each merged record is exactly the stored report")
			}
		}
	}
	// chart that day
	rw2 := &c13rw{}
	req2 := &http.Request{Method: "GET", URL: &url.URL{Path: "/chart/", RawQuery: "date=" + day}}
	content.HandlerFunc(handleChart(cfg, api)).ServeHTTP(rw2, req2)
	vrt.Assert(rw2.code == 200, "charting a merged day succeeds")
	nd := vos.Lookup("/data/chart/" + day + ".json")
	vrt.Assert(nd != nil, "chart object written")
	if nd != nil && vrt.IsSymbolic() {
		b := nd.Data
		for len(b) > 0 && b[len(b)-1] == '\n' {
			b = b[:len(b)-1]
		}
		v, ok := vjson.Lookup(b)
		vrt.Assert(ok, "chart object holds chart data")
		if ok {
			cd := v.(*chartdata)
			vrt.Assert(cd.NumReports == k, "charting reads every merged report of the range")
		}
	}
	// a day that was never merged
	rw3 := &c13rw{}
	req3 := &http.Request{Method: "GET", URL: &url.URL{Path: "/chart/", RawQuery: "start=" + day + "&end=" + other}}
	content.HandlerFunc(handleChart(cfg, api)).ServeHTTP(rw3, req3)
	vrt.Assert(rw3.code == 404, "a missing day is reported as not found rather than charted as empty")
	_ = stored
}

// VC13_order: one partition computed under every iteration order of the maps involved
// gives the same chart.
func VC13_order() {
	n := vrt.Param("reports", 2)
	var reports []telemetry.Report
	for i := 0; i < n; i++ {
		reports = append(reports, c13report())
	}
	d := group(reports)
	prog := programName(c13programs[0])
	var name graphName
	var buckets []bucketName
	var opts partitionOptions
	switch vrt.Choose(3) {
	case 0:
		name, buckets = goosCounter, toSliceOf[bucketName](c13goos)
	case 1:
		name, buckets = goversionCounter, toSliceOf[bucketName](c13goversion)
		opts = partitionOptions{ignoreEmptyBuckets: true, normalizeBucket: func(b bucketName) bucketName { return bucketName(goMajorMinor(string(b))) }}
	case 2:
		name, buckets = "c", []bucketName{"x", "y"}
	}
	a := d.partition(prog, name, buckets, opts)
	vrt.MapOrderSymbolic(true)
	b := d.partition(prog, name, buckets, opts)
	vrt.MapOrderSymbolic(false)
	vrt.Assert((a == nil) == (b == nil), "a partition exists independently of map iteration order")
	if a == nil || b == nil {
		return
	}
	vrt.Assert(len(a.Data) == len(b.Data), "same number of data points under any map iteration order")
	for i := range a.Data {
		if i < len(b.Data) {
			vrt.Assert(*a.Data[i] == *b.Data[i], "same data points in the same order under any map iteration order")
		}
	}
}

// VC13_versions: the Version partition when configured versions compare equal as semantic
// versions although they are different strings (invalid semver such as "devel"/"tip", or
// "v1.2" vs "v1.2.0"): the order of data points must not depend on map iteration order.
func VC13_versions() {
	pool := [][2]string{{"tip", "devel"}, {"v1.2", "v1.2.0"}, {"v1.0.0+a", "v1.0.0+b"}}
	vs := pool[vrt.Choose(len(pool))]
	var reports []telemetry.Report
	for i := 0; i < 2; i++ {
		x := math.Float64frombits(vrt.U64())
		vrt.Assume(!math.IsNaN(x) && !math.IsInf(x, 0))
		reports = append(reports, telemetry.Report{Week: "2024-01-07", X: x, Programs: []*telemetry.ProgramReport{{
			Program: c13programs[0], Version: vs[i], GOOS: "linux", GOARCH: "amd64", GoVersion: "go1.21.0", Counters: map[string]int64{}}}})
	}
	d := group(reports)
	opts := partitionOptions{ignoreEmptyBuckets: true, compareBuckets: compareSemver}
	buckets := []bucketName{bucketName(vs[0]), bucketName(vs[1])}
	a := d.partition(programName(c13programs[0]), versionCounter, buckets, opts)
	vrt.MapOrderSymbolic(true)
	b := d.partition(programName(c13programs[0]), versionCounter, buckets, opts)
	vrt.MapOrderSymbolic(false)
	if !vrt.IsSymbolic() {
		// natively the runtime randomises map iteration: recompute until an order differs
		for i := 0; i < 64 && b != nil && a != nil && len(a.Data) == 2 && len(b.Data) == 2 && *a.Data[0] == *b.Data[0]; i++ {
			b = d.partition(programName(c13programs[0]), versionCounter, buckets, opts)
		}
	}
	vrt.Assert(a != nil && b != nil && len(a.Data) == 2 && len(b.Data) == 2, "both versions are charted")
	if a == nil || b == nil || len(a.Data) != 2 || len(b.Data) != 2 {
		return
	}
	vrt.Assert(*a.Data[0] == *b.Data[0] && *a.Data[1] == *b.Data[1], "data points of semver-equal versions keep one order under any map iteration order")
}


// c13decodeInto gives decoding a report the semantics encoding/json has for a destination
// that is not empty: scalar fields are overwritten; a slice is truncated and refilled
// reusing its backing array, and a non-nil pointer element found there is decoded *into*
// (not replaced); an existing map is kept and the decoded entries are added to it; a JSON
// null sets maps and slices to nil. The result shares nothing with src.
func c13decodeInto(dst, src *telemetry.Report) {
	dst.Week, dst.LastWeek, dst.X, dst.Config = src.Week, src.LastWeek, src.X, src.Config
	if src.Programs == nil {
		dst.Programs = nil
		return
	}
	old := dst.Programs[:cap(dst.Programs)]
	out := dst.Programs[:0]
	if out == nil {
		out = []*telemetry.ProgramReport{}
	}
	for i, sp := range src.Programs {
		var p *telemetry.ProgramReport
		if i < len(old) {
			p = old[i]
		}
		if sp == nil {
			out = append(out, nil)
			continue
		}
		if p == nil {
			p = &telemetry.ProgramReport{}
		}
		p.Program, p.Version, p.GoVersion, p.GOOS, p.GOARCH = sp.Program, sp.Version, sp.GoVersion, sp.GOOS, sp.GOARCH
		p.Counters = c13decodeMap(p.Counters, sp.Counters)
		p.Stacks = c13decodeMap(p.Stacks, sp.Stacks)
		out = append(out, p)
	}
	dst.Programs = out
}

func c13decodeMap(dst, src map[string]int64) map[string]int64 {
	if src == nil {
		return nil
	}
	if dst == nil {
		dst = map[string]int64{}
	}
	for k, v := range src {
		dst[k] = v
	}
	return dst
}


func c13sameMap(a, b map[string]int64) bool {
	if len(a) != len(b) {
		return false
	}
	for k, v := range b {
		if w, ok := a[k]; !ok || w != v {
			return false
		}
	}
	return true
}

func c13sameReport(a, b *telemetry.Report) bool {
	if a.Week != b.Week || a.LastWeek != b.LastWeek || a.X != b.X || a.Config != b.Config || len(a.Programs) != len(b.Programs) {
		return false
	}
	for i := range a.Programs {
		p, q := a.Programs[i], b.Programs[i]
		if p.Program != q.Program || p.Version != q.Version || p.GoVersion != q.GoVersion || p.GOOS != q.GOOS || p.GOARCH != q.GOARCH {
			return false
		}
		if !c13sameMap(p.Counters, q.Counters) || !c13sameMap(p.Stacks, q.Stacks) {
			return false
		}
	}
	return true
}
