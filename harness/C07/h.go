package upload

// Harness for C07 (each expired counter file is folded into exactly one weekly report),
// sequential clauses: one run over a mixed set of files, then a second run.

import (
	"golang.org/x/telemetry/internal/telemetry"
	"golang.org/x/telemetry/internal/vrt"
	"golang.org/x/telemetry/internal/vrt/vos"
)

var c7builds = []vuBuild{
	{"example.com/a", "v1.0.0", "go1.23.1", "linux", "amd64"},
	{"example.com/a", "v1.0.0", "go1.23.2", "linux", "amd64"}, // differs in the Go version only
	{"example.com/b", "v2.0.0", "go1.23.1", "linux", "amd64"},
	{"example.com/a", "v1.0.0", "go1.23.1", "linux", "arm64"}, // differs in GOARCH only
}

var c7names = []string{"c", "d", "s\nf"}

type c7file struct {
	path   string
	week   int // index into weeks
	kind   int // 0 counters, 1 parsed but empty, 2 unparseable
	build  int
	name   [2]int
	val    [2]uint64
	nctr   int
	before string
}

func c7isStack(s string) bool {
	for i := 0; i < len(s); i++ {
		if s[i] == '\n' {
			return true
		}
	}
	return false
}

// c7expect: the reference sum of counter name for build b over the files of week w.
func c7expect(files []*c7file, w, b int, name string) (int64, bool) {
	var s int64
	found := false
	for _, f := range files {
		if f.week != w || f.kind != 0 || f.build != b {
			continue
		}
		for k := 0; k < f.nctr; k++ {
			if c7names[f.name[k]] == name {
				s += int64(f.val[k])
				found = true
			}
		}
	}
	return s, found
}

func c7reportEvents(week string) (local, ready int) {
	for _, ev := range vos.Events {
		if ev.Op != "create" {
			continue
		}
		if ev.Path == vuDir+"/local/local."+week+".json" {
			local++
		}
		if ev.Path == vuDir+"/local/"+week+".json" {
			ready++
		}
	}
	return
}

func VC07_run() {
	vuReset()
	e1 := vrt.DaysFromCivil(2024, 1, 7)
	weeks := []int64{e1, e1 + 7}
	nf := vrt.Param("files", 2)
	// the run starts after the second week ended, or between the two ends (second week
	// still active), at any second
	// (a concrete case split: the age computation needs a concrete day, see C09)
	startDay := weeks[vrt.Choose(2)] + 2
	tod := vrt.SecondOfDay()
	mode := "local"
	if vrt.Param("modes", 1) > 1 {
		mode = []string{"local", "on 2000-01-01"}[vrt.Choose(2)]
	}
	vos.AddFile(vuDir+"/mode", []byte(mode))
	u := vuUploader(&telemetry.UploadConfig{}, vuInstant(startDay, tod))
	var files []*c7file
	for i := 0; i < nf; i++ {
		f := &c7file{week: vrt.Choose(2), kind: vrt.Choose(3)}
		if f.kind == 0 {
			f.build = vrt.Choose(vrt.Param("builds", 3))
		}
		base := "f" + string(rune('0'+i))
		f.path = vuDir + "/local/" + base + ".v1.count"
		end := weeks[f.week]
		switch f.kind {
		case 0:
			f.nctr = 1 + vrt.Choose(2)
			counts := map[string]uint64{}
			for k := 0; k < f.nctr; k++ {
				if k == 0 {
					f.name[0] = vrt.Choose(len(c7names))
				} else {
					f.name[1] = (f.name[0] + 1) % len(c7names)
				}
				f.val[k] = vrt.U64()
				vrt.Assume(f.val[k] > 0 && f.val[k] < 1<<60)
				counts[c7names[f.name[k]]] = f.val[k]
			}
			vuAddCountFile(u, base, end-7, end, c7builds[f.build], counts)
		case 1:
			vuAddCountFile(u, base, end-7, end, c7builds[f.build], map[string]uint64{})
		case 2:
			vos.AddFile(f.path, []byte("not a counter file")) // cannot be parsed
		}
		f.before = vuContent(f.path)
		files = append(files, f)
	}
	// a report for the first week may already exist
	prior := vrt.Choose(3) // 0 none, 1 uploaded copy, 2 local report
	w0 := vrt.DateStr(weeks[0])
	switch prior {
	case 1:
		vos.AddFile(vuDir+"/upload/"+w0+".json", []byte("U"))
	case 2:
		vos.AddFile(vuDir+"/local/local."+w0+".json", []byte("L"))
	}
	vos.Events = nil
	err := u.Run()
	vrt.Assert(err == nil, "run succeeds")

	for w := 0; w < 2; w++ {
		week := vrt.DateStr(weeks[w])
		expired := weeks[w] < startDay
		nonEmpty, any := false, false
		for _, f := range files {
			if f.week == w && f.kind != 2 {
				any = true
				if f.kind == 0 {
					nonEmpty = true
				}
			}
		}
		hadReport := w == 0 && prior != 0
		nl, _ := c7reportEvents(week)
		want := expired && nonEmpty && !hadReport
		vrt.Assert((nl == 1) == want && nl <= 1, "a week gets exactly one local report iff it is finished, has a non-empty file and no report yet")
		for _, f := range files {
			if f.week != w {
				continue
			}
			switch {
			case f.kind == 2 || !expired:
				vrt.Assert(vuContent(f.path) == f.before, "unreadable or unfinished counter files are left untouched")
			case want:
				vrt.Assert(!vuExists(f.path), "files folded into the new report are removed")
			case hadReport:
				// a report for the week already exists: the file may be removed, or left
				// as it is (e.g. when it holds no counters); it is never rewritten
				vrt.Assert(!vuExists(f.path) || vuContent(f.path) == f.before, "files of an already reported week are removed or left as they are")
			default:
				vrt.Assert(vuContent(f.path) == f.before, "files are removed only once a report for their week exists")
			}
		}
		_ = any
		if !want {
			continue
		}
		vrt.Reach("report built")
		nd := vos.Lookup(vuDir + "/local/local." + week + ".json")
		vrt.Assert(nd != nil, "the local report exists")
		if nd == nil {
			continue
		}
		r := vuReport(nd.Data)
		vrt.Assert(r != nil && r.Week == week, "the report names its week")
		if r == nil {
			continue
		}
		// every program report is one build with exactly the reference sums
		for _, p := range r.Programs {
			b := -1
			for i, bb := range c7builds {
				if bb.prog == p.Program && bb.vers == p.Version && bb.gov == p.GoVersion && bb.goos == p.GOOS && bb.goarch == p.GOARCH {
					b = i
				}
			}
			vrt.Assert(b >= 0, "each program report is one of the builds")
			if b < 0 {
				continue
			}
			for _, q := range r.Programs {
				vrt.Assert(q == p || !(q.Program == p.Program && q.Version == p.Version && q.GoVersion == p.GoVersion && q.GOOS == p.GOOS && q.GOARCH == p.GOARCH), "one program report per build")
			}
			for k, v := range p.Counters {
				s, ok := c7expect(files, w, b, k)
				vrt.Assert(ok && !c7isStack(k) && v == s, "counter value is the sum over exactly the week's files of that build")
			}
			for k, v := range p.Stacks {
				s, ok := c7expect(files, w, b, k)
				vrt.Assert(ok && c7isStack(k) && v == s, "stack value is the sum over exactly the week's files of that build")
			}
		}
		// and nothing is missing
		for _, f := range files {
			if f.week != w || f.kind != 0 {
				continue
			}
			bb := c7builds[f.build]
			var pr *telemetry.ProgramReport
			for _, p := range r.Programs {
				if bb.prog == p.Program && bb.vers == p.Version && bb.gov == p.GoVersion && bb.goos == p.GOOS && bb.goarch == p.GOARCH {
					pr = p
				}
			}
			vrt.Assert(pr != nil, "every build with data has a program report")
			if pr == nil {
				continue
			}
			for k := 0; k < f.nctr; k++ {
				nm := c7names[f.name[k]]
				var has bool
				if c7isStack(nm) {
					_, has = pr.Stacks[nm]
				} else {
					_, has = pr.Counters[nm]
				}
				vrt.Assert(has, "every counter of every folded file appears in the report")
			}
		}
	}

	// second run over the result, at the same or a later time: nothing new, nothing changed
	snapshot := map[string]string{}
	for _, nm := range vuLocalNames() {
		if vuHasSuffix(nm, ".json") {
			snapshot[nm] = vuContent(vuDir + "/local/" + nm)
		}
	}
	u2 := vuUploader(&telemetry.UploadConfig{}, vuInstant(startDay, tod))
	vuPreload(u2, u)
	vos.Events = nil
	err = u2.Run()
	vrt.Assert(err == nil, "second run succeeds")
	for _, ev := range vos.Events {
		if ev.Op == "create" || ev.Op == "write" || ev.Op == "truncate" {
			vrt.Assert(!vuHasPrefix(ev.Path, vuDir+"/local/local."), "re-running never produces a second or different local report")
		}
	}
	for nm, c := range snapshot {
		if vuHasPrefix(nm, "local.") {
			vrt.Assert(vuContent(vuDir+"/local/"+nm) == c, "existing local reports are unchanged by a re-run")
		}
	}
}

// VC07_race: two uploaders run concurrently over a stable set of files (every
// interleaving of their file-system calls within the preemption bound): a week never gets
// a second or different local report, and no file is counted twice.
func VC07_race() {
	vuReset()
	vrt.ResetThreads()
	end := vrt.DaysFromCivil(2024, 1, 7)
	week := vrt.DateStr(end)
	vos.AddFile(vuDir+"/mode", []byte([]string{"local", "on 2000-01-01"}[vrt.Choose(2)]))
	u0 := vuUploader(&telemetry.UploadConfig{}, vuInstant(end+2, 100))
	v1, v2 := vrt.U64(), vrt.U64()
	vrt.Assume(v1 > 0 && v1 < 1<<60 && v2 > 0 && v2 < 1<<60)
	p1 := vuAddCountFile(u0, "f0", end-7, end, c7builds[0], map[string]uint64{"c": v1})
	p2 := vuAddCountFile(u0, "f1", end-7, end, c7builds[0], map[string]uint64{"c": v2})
	for i := 0; i < 2; i++ {
		u := vuUploader(&telemetry.UploadConfig{}, vuInstant(end+2, 100))
		vuPreload(u, u0)
		vrt.Go(func() { u.Run() })
	}
	vos.Events = nil
	vrt.MaxPreempt = vrt.Param("preempt", 2)
	vrt.RunThreads()
	vrt.Assert(!vrt.Deadlock, "uploaders do not block each other")
	local := vuDir + "/local/local." + week + ".json"
	creates, writes := 0, 0
	for _, ev := range vos.Events {
		if ev.Path == local {
			switch ev.Op {
			case "create":
				creates++
			case "write":
				writes++
			}
		}
	}
	vrt.Assert(creates == 1 && writes <= 1, "concurrent uploaders never produce a second or different report for a week")
	nd := vos.Lookup(local)
	vrt.Assert(nd != nil, "the week's report exists")
	if nd != nil && len(nd.Data) > 0 {
		r := vuReport(nd.Data)
		vrt.Assert(r != nil && len(r.Programs) == 1, "one program report")
		if r != nil && len(r.Programs) == 1 {
			vrt.Assert(r.Programs[0].Counters["c"] == int64(v1+v2), "each file is counted exactly once")
		}
	}
	vrt.Assert(!vuExists(p1) && !vuExists(p2), "the folded files are removed")
}

// VC07_later: the uploader runs twice in one process. At the first run the second week's
// counter file is still active and is only looked at; the program goes on counting into
// it; the run after its end folds the file's final content into the week's report.
func VC07_later() {
	vuReset()
	e1 := vrt.DaysFromCivil(2024, 1, 7)
	vos.AddFile(vuDir+"/mode", []byte("local"))
	v1, v2, w2 := vrt.U64(), vrt.U64(), vrt.U64()
	vrt.Assume(v1 > 0 && v1 <= v2 && v2 < 1<<60 && w2 > 0 && w2 < 1<<60)
	u := vuUploader(&telemetry.UploadConfig{}, vuInstant(e1+2, vrt.SecondOfDay()))
	path := vuAddCountFile(u, "g", e1, e1+7, c7builds[0], map[string]uint64{c7names[0]: v1})
	err := u.Run()
	vrt.Assert(err == nil, "first run succeeds")
	vrt.Assert(vuExists(path), "the active counter file is left alone")
	// more counts arrive: same file, new content
	vuAddCountFile(nil, "g2", e1, e1+7, c7builds[0], map[string]uint64{c7names[0]: v2, c7names[1]: w2})
	vos.Lookup(path).Data = []byte("count:g2")
	vos.Remove(vuDir + "/local/g2.v1.count")
	u2 := vuUploader(&telemetry.UploadConfig{}, vuInstant(e1+7+1+int64(vrt.Choose(2)), vrt.SecondOfDay()))
	err = u2.Run()
	vrt.Assert(err == nil, "second run succeeds")
	week := vrt.DateStr(e1 + 7)
	nd := vos.Lookup(vuDir + "/local/local." + week + ".json")
	vrt.Assert(nd != nil && !vuExists(path), "the expired file is folded into its week's report and removed")
	if nd == nil {
		return
	}
	r := vuReport(nd.Data)
	vrt.Assert(r != nil && len(r.Programs) == 1, "one program report")
	if r == nil || len(r.Programs) != 1 {
		return
	}
	get := func(p *telemetry.ProgramReport, k string) (int64, bool) {
		if c7isStack(k) {
			v, ok := p.Stacks[k]
			return v, ok
		}
		v, ok := p.Counters[k]
		return v, ok
	}
	a, okA := get(r.Programs[0], c7names[0])
	b, okB := get(r.Programs[0], c7names[1])
	vrt.Assert(okA && a == int64(v2), "the report holds the file's final value, not the one an earlier run saw")
	vrt.Assert(okB && b == int64(w2), "a counter that appeared after the earlier run is in the report")
}
