package counter

// Harness for C04 (processes sharing a counter file never corrupt it, even when killed).
// A "process" is a harness thread with its own file/mappedFile/Counter objects; all of them
// map the same file of the in-memory file system (shared memory). Scheduling points: every
// atomic operation (including those on the mapped file), mutex operation and file-system
// call of the instrumented copy of file.go/counter.go.

import (
	"time"

	"golang.org/x/telemetry/internal/telemetry"
	"golang.org/x/telemetry/internal/vrt"
	"golang.org/x/telemetry/internal/vrt/vos"
)

const c4root = "/t"

func c4hash(name string) uint32 {
	h := uint32(2166136261)
	for i := 0; i < len(name); i++ {
		h = (h ^ uint32(name[i])) * 16777619
	}
	return (h ^ (h >> 16)) % 512
}

// c4collide finds a two-byte name in the same hash bucket as "a".
func c4collide() string {
	want := c4hash("a")
	for x := byte('a'); x <= 'z'; x++ {
		for y := byte('a'); y <= 'z'; y++ {
			s := string([]byte{x, y})
			if c4hash(s) == want {
				return s
			}
		}
	}
	return "a"
}

type c4rec struct {
	off   uint32
	name  string
	value uint64
}

// c4decode reads the file by the documented layout, independently of the library, and
// checks well-formedness. ok=false means malformed (reason in why).
func c4decode(d []byte) (recs []c4rec, limit uint32, ok bool, why string) {
	rd32 := func(i uint32) uint32 {
		return uint32(d[i]) | uint32(d[i+1])<<8 | uint32(d[i+2])<<16 | uint32(d[i+3])<<24
	}
	if len(d) < 16*1024 || len(d)%(16*1024) != 0 {
		return nil, 0, false, "size is not a positive multiple of the page size"
	}
	const prefix = "# telemetry/counter file v1\n"
	if string(d[:len(prefix)]) != prefix {
		return nil, 0, false, "prefix"
	}
	hdrLen := rd32(28)
	if hdrLen < 32 || hdrLen%32 != 0 || hdrLen > 576 {
		return nil, 0, false, "header length"
	}
	tableEnd := hdrLen + 4 + 4*512
	limit = rd32(hdrLen)
	if limit != 0 && (limit < tableEnd || limit%32 != 0 || int(limit) > len(d)) {
		return nil, limit, false, "allocation limit"
	}
	for b := uint32(0); b < 512; b++ {
		off := rd32(hdrLen + 4 + 4*b)
		for n := 0; off != 0; n++ {
			if n > 8 {
				return nil, limit, false, "hash chain too long or cyclic"
			}
			if off < tableEnd || off%32 != 0 || off+16 > limit {
				return nil, limit, false, "record offset outside the record area"
			}
			nl := rd32(off+8) & 0xffffff
			if nl == 0 || off+16+nl > limit {
				return nil, limit, false, "record name length"
			}
			end := (off + 16 + nl + 31) &^ 31
			if off/(16*1024) != (end+3)/(16*1024) && end%(16*1024) != 0 || off/(16*1024) != (end-1)/(16*1024) {
				return nil, limit, false, "record crosses a page or touches its reserved tail"
			}
			name := string(d[off+16 : off+16+nl])
			if c4hash(name) != b {
				return nil, limit, false, "record in the wrong bucket"
			}
			for _, r := range recs {
				if r.name == name {
					return nil, limit, false, "two records for one name"
				}
				rend := (r.off + 16 + uint32(len(r.name)) + 31) &^ 31
				if off < rend && r.off < end {
					return nil, limit, false, "overlapping records"
				}
			}
			recs = append(recs, c4rec{off, name, uint64(rd32(off)) | uint64(rd32(off+4))<<32})
			off = rd32(off + 12)
		}
	}
	return recs, limit, true, ""
}

type c4proc struct {
	name   string
	amount int64
	begun  bool
	done   bool
	killed bool
	opened bool
}

func c4value(recs []c4rec, name string) uint64 {
	for _, r := range recs {
		if r.name == name {
			return r.value
		}
	}
	return 0
}

var c4path string

func c4file() []byte {
	for _, nd := range vos.Nodes {
		if !nd.Gone && len(nd.Name) > 9 && nd.Name[len(nd.Name)-9:] == ".v1.count" {
			c4path = nd.Name
			return nd.Data
		}
	}
	return nil
}

// c4check: the file is well formed and every value lies between the increments completed
// and the increments begun on that name.
func c4check(procs []*c4proc, final bool) {
	d := c4file()
	if d == nil {
		return // not created yet
	}
	if len(d) < 16*1024 {
		return // still being created (header written, not yet extended)
	}
	recs, _, ok, why := c4decode(d)
	_ = why
	vrt.Assert(ok, "the file is a well-formed counter file at every instant")
	if !ok {
		return
	}
	seen := map[string]bool{}
	for _, p := range procs {
		if seen[p.name] {
			continue
		}
		seen[p.name] = true
		var begun, completed uint64
		for _, q := range procs {
			if q.name == p.name {
				if q.begun {
					begun += uint64(q.amount)
				}
				if q.done {
					completed += uint64(q.amount)
				}
			}
		}
		v := c4value(recs, p.name)
		vrt.Assert(v <= begun, "no counter exceeds the increments begun on it")
		vrt.Assert(v >= completed, "no completed increment is lost")
		if final {
			allDone := true
			for _, q := range procs {
				if q.name == p.name && !q.done {
					allDone = false
				}
			}
			if allDone {
				vrt.Assert(v == begun, "when the processes quiesce every counter equals the sum of its increments")
			}
		}
	}
	for _, r := range recs {
		vrt.Assert(seen[r.name] || r.name == "old", "only names that were recorded appear in the file")
	}
}

func VC04_procs() {
	vos.Reset()
	vrt.ResetThreads()
	telemetry.Default = telemetry.NewDir(c4root)
	vos.AddDir(c4root + "/local")
	vos.AddFile(c4root+"/local/weekends", []byte("2\n"))
	day := vrt.DaysFromCivil(2024, 1, 10)
	CounterTime = func() time.Time { return time.Unix(day*86400+100, 0).UTC() }
	names := []string{"a", c4collide(), "b"}
	np := vrt.Param("procs", 2)
	nearFull := vrt.Param("extend", 0) != 0 && vrt.Bool()
	if vrt.Param("preexisting", 1) != 0 && vrt.Bool() || nearFull {
		// the file already exists with one record
		f := &file{buildInfo: c3bi()}
		f.rotate1()
		(&Counter{name: "old", file: f}).Add(5)
		if nearFull {
			m := f.current.Load()
			d := m.mapping.Data
			lim := uint32(pageSize - 32)
			d[m.hdrLen], d[m.hdrLen+1], d[m.hdrLen+2], d[m.hdrLen+3] = byte(lim), byte(lim>>8), byte(lim>>16), byte(lim>>24)
		}
		f.current.Load().close()
	}
	var procs []*c4proc
	for i := 0; i < np; i++ {
		p := &c4proc{name: names[vrt.Choose(len(names))]}
		a := vrt.I64()
		vrt.Assume(a > 0 && a < 1<<20)
		p.amount = a
		procs = append(procs, p)
	}
	victim := -1
	killStep := 0
	if vrt.Param("kill", 0) != 0 && vrt.Bool() {
		victim = 0
		killStep = 1 + vrt.Choose(vrt.Param("killsteps", 40))
	}
	ids := make([]int, np)
	steps := map[int]int{}
	for i, p := range procs {
		p := p
		i := i
		vrt.Go(func() {
			ids[i] = vrt.ThreadID()
			p.killed = vos.Killable(func() {
				f := &file{buildInfo: c3bi()}
				f.rotate1()
				p.opened = f.err == nil && f.current.Load() != nil
				c := &Counter{name: p.name, file: f}
				p.begun = true
				c.Add(p.amount)
				if c.state.load().extra() == 0 && p.opened {
					p.done = true
				}
			})
		})
	}
	vrt.YieldHook = func() {
		id := vrt.ThreadID()
		steps[id]++
		if victim >= 0 && id == ids[victim] && steps[id] == killStep {
			vos.KillNow()
		}
	}
	if vrt.Param("observer", 1) != 0 {
		vrt.Go(func() {
			vrt.Yield()
			c4check(procs, false)
		})
	}
	vrt.MaxPreempt = vrt.Param("preempt", 2)
	vrt.RunThreads()
	vrt.Assert(!vrt.Deadlock, "no process is blocked by another")
	for i, p := range procs {
		if i == victim && p.killed {
			continue
		}
		vrt.Assert(!p.killed, "only the victim dies")
		vrt.Assert(p.opened, "a surviving process opens the file")
		vrt.Assert(p.done, "a surviving process records its increment in the file")
	}
	c4check(procs, true)
}

// VC04_grow: both processes record the same name into a file whose first page is used up,
// so each of them has to extend and remap the file while the other may be anywhere in its
// own lookup / reservation / link sequence.
func VC04_grow() {
	vos.Reset()
	vrt.ResetThreads()
	telemetry.Default = telemetry.NewDir(c4root)
	vos.AddDir(c4root + "/local")
	vos.AddFile(c4root+"/local/weekends", []byte("2\n"))
	day := vrt.DaysFromCivil(2024, 1, 10)
	CounterTime = func() time.Time { return time.Unix(day*86400+100, 0).UTC() }
	f0 := &file{buildInfo: c3bi()}
	f0.rotate1()
	(&Counter{name: "old", file: f0}).Add(5)
	m := f0.current.Load()
	d := m.mapping.Data
	lim := uint32(pageSize - 32)
	d[m.hdrLen], d[m.hdrLen+1], d[m.hdrLen+2], d[m.hdrLen+3] = byte(lim), byte(lim>>8), byte(lim>>16), byte(lim>>24)
	m.close()
	names := []string{"a", "a"}
	if vrt.Bool() {
		names[1] = c4collide()
	}
	var procs []*c4proc
	for i := 0; i < 2; i++ {
		a := vrt.I64()
		vrt.Assume(a > 0 && a < 1<<20)
		procs = append(procs, &c4proc{name: names[i], amount: a})
	}
	for _, p := range procs {
		p := p
		vrt.Go(func() {
			f := &file{buildInfo: c3bi()}
			f.rotate1()
			p.opened = f.err == nil && f.current.Load() != nil
			c := &Counter{name: p.name, file: f}
			p.begun = true
			c.Add(p.amount)
			if c.state.load().extra() == 0 && p.opened {
				p.done = true
			}
		})
	}
	vrt.MaxPreempt = vrt.Param("preempt", 1)
	vrt.RunThreads()
	vrt.Assert(!vrt.Deadlock, "no process is blocked by another")
	for _, p := range procs {
		vrt.Assert(p.opened && p.done, "every process records its increment")
	}
	c4check(procs, true)
}
