package counter

import "runtime/debug"

func c3bi() *debug.BuildInfo {
	return &debug.BuildInfo{GoVersion: "go1.23.5", Path: "example.com/cmd/prog", Main: debug.Module{Path: "example.com/cmd", Version: "v1.2.3"}}
}
