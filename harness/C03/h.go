package counter

// Harness for C03 (concurrent increments are counted exactly once and never crash the
// program). Threads are cooperative (vrt.Go / vrt.RunThreads); the copy of counter.go and
// file.go under test has a scheduling point before every atomic operation, every mutex
// operation and every access to the plainly shared field Counter.ptr.

import (
	"time"

	"golang.org/x/telemetry/internal/telemetry"
	"golang.org/x/telemetry/internal/vrt"
	"golang.org/x/telemetry/internal/vrt/vos"
)

const c3root = "/t"

func c3setup() *file {
	vos.Reset()
	vrt.ResetThreads()
	debugCounter = vrt.NativeTrace()
	telemetry.Default = telemetry.NewDir(c3root)
	vos.AddDir(c3root + "/local")
	vos.AddFile(c3root+"/local/weekends", []byte("2\n"))
	day := vrt.DaysFromCivil(2024, 1, 10)
	CounterTime = func() time.Time { return time.Unix(day*86400+100, 0).UTC() }
	return &file{buildInfo: c3bi()}
}

func c3amount() int64 {
	n := vrt.I64()
	vrt.Assume(n > 0 && n < 1<<20)
	return n
}

// c3persisted sums the counter's value over all counter files of the process.
func c3persisted(name string) uint64 {
	var sum uint64
	for _, nd := range vos.Nodes {
		if nd.Gone || len(nd.Name) < 9 || nd.Name[len(nd.Name)-9:] != ".v1.count" {
			continue
		}
		if v, ok := c3value(nd.Data, name); ok {
			sum += v
		}
	}
	return sum
}

func c3value(d []byte, name string) (uint64, bool) {
	if len(d) < 64 {
		return 0, false
	}
	// the observer may look at a file that is still being created or extended: every
	// read is bounds-checked, and a file that is not complete yet holds no value
	bad := false
	rd32 := func(i uint32) uint32 {
		if uint64(i)+4 > uint64(len(d)) {
			bad = true
			return 0
		}
		return uint32(d[i]) | uint32(d[i+1])<<8 | uint32(d[i+2])<<16 | uint32(d[i+3])<<24
	}
	hdrLen := rd32(28)
	h := uint32(2166136261)
	for i := 0; i < len(name); i++ {
		h = (h ^ uint32(name[i])) * 16777619
	}
	h = (h ^ (h >> 16)) % 512
	if hdrLen > 1<<20 {
		return 0, false
	}
	off := rd32(hdrLen + 4 + 4*h)
	for n := 0; off != 0 && n < 8 && !bad; n++ {
		nl := rd32(off+8) & 0xffffff
		if bad || uint64(off)+16+uint64(nl) > uint64(len(d)) {
			return 0, false
		}
		if string(d[off+16:off+16+nl]) == name {
			v := uint64(rd32(off)) | uint64(rd32(off+4))<<32
			return v, !bad
		}
		off = rd32(off + 12)
	}
	return 0, false
}

type c3state struct {
	c     *Counter
	begun int64 // sum of increments whose Add has begun
}

func (s *c3state) adder(n int64) func() {
	return func() {
		s.begun += n
		s.c.Add(n)
	}
}

// observer: at an arbitrary instant, persisted + pending never exceeds the increments begun.
func (s *c3state) observer() func() {
	return func() {
		vrt.Yield()
		pending := s.c.state.load().extra()
		total := c3persisted(s.c.name) + pending
		vrt.Assert(total <= uint64(s.begun), "at every instant persisted plus pending does not exceed the increments begun")
	}
}

func (s *c3state) final(f *file, sum int64) {
	vrt.Assert(!vrt.Deadlock, "no increment waits forever")
	st := s.c.state.load()
	total := c3persisted(s.c.name) + st.extra()
	vrt.Assert(total == uint64(sum), "once the calls have returned the counter equals the sum of all increments")
	if f.current.Load() != nil {
		vrt.Assert(st.extra() == 0, "with a counter file open nothing remains unpersisted")
	}
	vrt.Assert(!st.locked() && st.readers() == 0, "the counter's lock word is released")
}

// VC03_adders: concurrent Adds on one counter of an open file.
func VC03_adders() {
	f := c3setup()
	f.rotate1()
	vrt.Assert(f.err == nil && f.current.Load() != nil, "file opens")
	s := &c3state{c: &Counter{name: "c", file: f}}
	if vrt.Bool() {
		s.c.Add(1) // already used: has its pointer
		s.begun = 1
	}
	base := s.begun
	n := vrt.Param("adders", 2)
	var sum int64
	for i := 0; i < n; i++ {
		a := c3amount()
		sum += a
		vrt.Go(s.adder(a))
	}
	if vrt.Param("observer", 1) != 0 {
		vrt.Go(s.observer())
	}
	vrt.MaxPreempt = vrt.Param("preempt", 2)
	vrt.RunThreads()
	s.final(f, base+sum)
	c3after(s, f, base+sum)
}

// c3after: once everything has settled, one more increment from a caller that was not
// involved: it must neither fault (a stale pointer published during the race would make
// it write through an unmapped view) nor get lost.
func c3after(s *c3state, f *file, total int64) {
	s.c.Add(1)
	s.final(f, total+1)
}

func c3run(f *file, s *c3state, base int64, env func()) {
	n := vrt.Param("adders", 2)
	var sum int64
	for i := 0; i < n; i++ {
		a := c3amount()
		sum += a
		vrt.Go(s.adder(a))
	}
	vrt.Go(env)
	if vrt.Param("observer", 0) != 0 {
		vrt.Go(s.observer())
	}
	vrt.MaxPreempt = vrt.Param("preempt", 2)
	vrt.RunThreads()
	s.final(f, base+sum)
	c3after(s, f, base+sum)
}

// VC03_open: Adds racing with the first opening of the counter file.
func VC03_open() {
	f := c3setup()
	s := &c3state{c: &Counter{name: "c", file: f}}
	if vrt.Bool() {
		s.c.Add(2) // pending in memory before the file exists
		s.begun = 2
	}
	c3run(f, s, s.begun, func() {
		f.rotate1()
		vrt.Assert(f.err == nil, "the file opens")
	})
}

// VC03_extend: Adds racing with growth of the file (another counter's record does not fit
// the mapped pages any more, the file is extended and remapped, the old mapping unmapped).
func VC03_extend() {
	f := c3setup()
	f.rotate1()
	vrt.Assert(f.err == nil && f.current.Load() != nil, "file opens")
	s := &c3state{c: &Counter{name: "c", file: f}}
	// the counter either already has its record and pointer, or is used for the first time
	if vrt.Bool() {
		s.c.Add(1)
		s.begun = 1
	}
	// make the first page look full: the next record has to go to a new page
	m := f.current.Load()
	d := m.mapping.Data
	lim := uint32(pageSize - 32)
	d[m.hdrLen], d[m.hdrLen+1], d[m.hdrLen+2], d[m.hdrLen+3] = byte(lim), byte(lim>>8), byte(lim>>16), byte(lim>>24)
	c3run(f, s, s.begun, func() {
		p := f.lookup("other")
		vrt.Assert(p.count != nil, "the other counter gets its record in the extended file")
		vrt.Assert(f.current.Load() != m, "the file was remapped")
	})
}

// VC03_rotate: Adds racing with weekly rotation to a new file.
func VC03_rotate() {
	f := c3setup()
	f.rotate1()
	vrt.Assert(f.err == nil && f.current.Load() != nil, "file opens")
	s := &c3state{c: &Counter{name: "c", file: f}}
	if vrt.Bool() {
		s.c.Add(1)
		s.begun = 1
	}
	old := f.current.Load()
	c3run(f, s, s.begun, func() {
		day := vrt.DaysFromCivil(2024, 1, 20)
		CounterTime = func() time.Time { return time.Unix(day*86400+100, 0).UTC() }
		f.rotate1()
		vrt.Assert(f.err == nil && f.current.Load() != old, "rotation starts a new file")
	})
}

// VC03_saturate: at the limits values stick instead of wrapping - for every state word and
// every amount (one solver query per assertion, no threads).
func VC03_saturate() {
	b := counterStateBits(vrt.U64())
	n := vrt.U64()
	r := b.addExtra(n)
	const max = uint64(1)<<33 - 1
	x := b.extra()
	vrt.Assert(uint64(r)&(1<<31-1) == uint64(b)&(1<<31-1), "addExtra leaves reader count and pointer flag alone")
	if x+n < x || x+n > max {
		vrt.Assert(r.extra() == max, "pending count sticks at 2^33-1")
	} else {
		vrt.Assert(r.extra() == x+n, "pending count adds exactly below the limit")
	}
	vrt.Assert(r.extra() >= x, "pending count never decreases")

	// Counter.add on a mapped cell with an arbitrary old value
	f := c3setup()
	f.rotate1()
	c := &Counter{name: "c", file: f}
	c.Add(1)
	vrt.Assert(c.ptr.count != nil, "counter has its cell")
	if c.ptr.count == nil {
		return
	}
	old := vrt.U64()
	c.ptr.count.Store(old)
	m := vrt.U64()
	vrt.Assume(m > 0)
	sum := c.add(m)
	if old+m < old {
		vrt.Assert(sum == ^uint64(0) && c.ptr.count.Load() == ^uint64(0), "persisted count sticks at 2^64-1")
	} else {
		vrt.Assert(sum == old+m && c.ptr.count.Load() == old+m, "persisted count adds exactly below the limit")
	}
}

// VC03_two: the first Adds of two distinct counters race with each other and with the
// opening of the file: afterwards both counters are on the file's list, both are persisted
// and nothing is pending.
func VC03_two() {
	f := c3setup()
	c := &Counter{name: "c", file: f}
	d := &Counter{name: "d", file: f}
	a1, a2 := c3amount(), c3amount()
	vrt.Go(func() { c.Add(a1) })
	vrt.Go(func() { d.Add(a2) })
	vrt.Go(func() {
		f.rotate1()
		vrt.Assert(f.err == nil, "the file opens")
	})
	vrt.MaxPreempt = vrt.Param("preempt", 2)
	vrt.RunThreads()
	vrt.Assert(!vrt.Deadlock, "no increment waits forever")
	for _, x := range []struct {
		c *Counter
		n int64
	}{{c, a1}, {d, a2}} {
		st := x.c.state.load()
		vrt.Assert(c3persisted(x.c.name)+st.extra() == uint64(x.n), "each counter equals its increments")
		vrt.Assert(st.extra() == 0, "with a counter file open nothing remains unpersisted (two counters)")
		vrt.Assert(!st.locked() && st.readers() == 0, "the counter's lock word is released")
	}
	// both are on the file's list (so that later invalidations reach them)
	n := 0
	for x := f.counters.Load(); x != nil && x != &f.end && n < 8; x = x.next.Load() {
		n++
	}
	vrt.Assert(n == 2, "every counter in use is on the file's list")
}
