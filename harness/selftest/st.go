package counter

// Translator self-test entries (see engine/selftest.go): code over symbolic inputs whose
// results are passed to vrt.Observe. No assertions: the comparison is between the value
// the encoding gives an observation in a solver model and the value the compiled code
// computes for the same inputs.

import (
	"bytes"
	"errors"
	"fmt"
	"html"
	"math"
	"math/bits"
	"path"
	"path/filepath"
	"regexp"
	"sort"
	"strconv"
	"strings"
	"sync/atomic"
	"time"
	"unicode"
	"unicode/utf8"

	"golang.org/x/telemetry/internal/vrt"
)

func stStr(n int) string { return vrt.String(n) }

func stASCII(n int) string {
	s := vrt.String(n)
	for i := 0; i < len(s); i++ {
		vrt.Assume(s[i] < 0x80)
	}
	return s
}

func ST_arith64() {
	a, b := vrt.U64(), vrt.U64()
	s := uint(vrt.U8())
	vrt.Observe(a + b)
	vrt.Observe(a - b)
	vrt.Observe(a * 1000003)
	vrt.Observe(a & b)
	vrt.Observe(a | b)
	vrt.Observe(a ^ b)
	vrt.Observe(a &^ b)
	vrt.Observe(a << s)
	vrt.Observe(a >> s)
	vrt.Observe(^a)
	vrt.Observe(-a)
	vrt.ObserveBool(a < b)
	vrt.ObserveBool(a <= b)
	vrt.ObserveBool(a == b)
	if b != 0 {
		vrt.Observe(a / b)
		vrt.Observe(a % b)
	}
	vrt.Observe(a / 10)
	vrt.Observe(a % 1000000007)
	vrt.Observe(a * b)
}

func ST_signed64() {
	a, b := vrt.I64(), vrt.I64()
	s := uint(vrt.U8())
	vrt.ObserveI64(a + b)
	vrt.ObserveI64(a - b)
	vrt.ObserveI64(a >> s)
	vrt.ObserveI64(a << s)
	vrt.ObserveI64(-a)
	vrt.ObserveBool(a < b)
	vrt.ObserveBool(a >= b)
	if b != 0 {
		vrt.ObserveI64(a / b)
		vrt.ObserveI64(a % b)
	}
	vrt.ObserveI64(a / 7)
	vrt.ObserveI64(a % 7)
	vrt.ObserveI64(a / -86400)
	vrt.ObserveI64(a % -86400)
	vrt.ObserveI64(a * 1000000000 / 1000000000)
	m := int64(math.MinInt64)
	if a == m {
		vrt.ObserveI64(a / -1)
		vrt.ObserveI64(a % -1)
	}
}

func ST_narrow() {
	a8, b8 := vrt.U8(), vrt.U8()
	vrt.Observe(uint64(a8 + b8))
	vrt.Observe(uint64(a8 - b8))
	vrt.Observe(uint64(a8 * b8))
	vrt.Observe(uint64(a8 << (b8 & 15)))
	vrt.Observe(uint64(a8 >> (b8 & 15)))
	vrt.ObserveI64(int64(int8(a8) >> (b8 & 15)))
	vrt.ObserveI64(int64(int8(a8) * int8(b8)))
	if b8 != 0 {
		vrt.ObserveI64(int64(int8(a8) / int8(b8)))
		vrt.ObserveI64(int64(int8(a8) % int8(b8)))
	}
	a16 := vrt.U16()
	vrt.Observe(uint64(a16 * 257))
	vrt.ObserveI64(int64(int16(a16) / 3))
	a32, b32 := vrt.U32(), vrt.U32()
	vrt.Observe(uint64(a32 + b32))
	vrt.Observe(uint64(a32 * b32))
	vrt.Observe(uint64(a32 << (b32 & 63)))
	vrt.Observe(uint64(a32 >> (b32 & 63)))
	vrt.ObserveI64(int64(int32(a32) >> (b32 & 63)))
	vrt.ObserveI64(int64(int32(a32) - int32(b32)))
	vrt.ObserveBool(int32(a32) < int32(b32))
	vrt.Observe(uint64((a32 ^ (a32 >> 16)) % 512))
}

func ST_conv() {
	a := vrt.U64()
	vrt.Observe(uint64(uint8(a)))
	vrt.Observe(uint64(uint16(a)))
	vrt.Observe(uint64(uint32(a)))
	vrt.ObserveI64(int64(int8(a)))
	vrt.ObserveI64(int64(int16(a)))
	vrt.ObserveI64(int64(int32(a)))
	vrt.ObserveInt(int(a))
	vrt.Observe(uint64(uintptr(a)))
	i := vrt.I32()
	vrt.Observe(uint64(i))
	vrt.Observe(uint64(uint32(i)))
	vrt.ObserveI64(int64(i) * 3)
	b := byte(a) & 0x7f // string(rune) of a symbolic non-ASCII value is unsupported (reported, never guessed)
	vrt.Observe(uint64(rune(b)))
	vrt.ObserveStr(string(rune(b)))
	vrt.ObserveStr(string([]byte{b, 'x'}))
}

func ST_float() {
	a := vrt.I64()
	vrt.Assume(a > -(1<<52) && a < 1<<52)
	f := float64(a)
	vrt.Observe(math.Float64bits(f))
	vrt.Observe(math.Float64bits(f / 4))
	vrt.ObserveBool(f < 1000.5)
	u := vrt.U64()
	g := float64(u)
	vrt.Observe(math.Float64bits(g))
	vrt.ObserveBool(g >= 1<<63)
	x := vrt.F64()
	vrt.ObserveBool(x != x)
	vrt.ObserveBool(x < 0.5)
	vrt.ObserveBool(math.IsNaN(x) || math.IsInf(x, 0))
	if !math.IsNaN(x) { // the solver's floats have a single NaN: payload bits are not modelled
		vrt.Observe(math.Float64bits(math.Abs(x)))
		vrt.Observe(math.Float64bits(-x))
	}
}

// ST_float2: arithmetic on floats (slower for the solver: small ranges).
func ST_float2() {
	a := vrt.I64()
	vrt.Assume(a > -(1<<20) && a < 1<<20)
	f := float64(a)
	vrt.Observe(math.Float64bits(f*0.5 + 1))
	vrt.ObserveI64(int64(f / 3))
	h := float64(uint64(vrt.U16())) / float64(uint64(1)<<16)
	vrt.Observe(math.Float64bits(h))
	vrt.ObserveBool(h <= 0.999)
}

func ST_divzero() {
	a, b := vrt.I64(), vrt.I64()
	vrt.Assume(b >= 0 && b < 3)
	vrt.ObserveI64(a / b) // panics when b == 0
	arr := []int{1, 2, 3}
	i := vrt.Int()
	vrt.Assume(i >= -1 && i <= 3)
	vrt.ObserveInt(arr[i]) // panics out of range
}

func ST_bits() {
	a := vrt.U64()
	vrt.ObserveInt(bits.OnesCount64(a))
	vrt.ObserveInt(bits.LeadingZeros64(a))
	vrt.ObserveInt(bits.TrailingZeros64(a))
	vrt.ObserveInt(bits.Len64(a))
	vrt.Observe(bits.RotateLeft64(a, 13))
	vrt.Observe(bits.ReverseBytes64(a))
	b := vrt.U32()
	vrt.ObserveInt(bits.OnesCount32(b))
	vrt.ObserveInt(bits.Len32(b))
	vrt.Observe(uint64(bits.RotateLeft32(b, -5)))
	hi, lo := bits.Mul64(a, uint64(b))
	vrt.Observe(hi)
	vrt.Observe(lo)
	s, c := bits.Add64(a, uint64(b)<<40, 1)
	vrt.Observe(s)
	vrt.Observe(c)
}

func ST_strings() {
	s := stStr(3)
	vrt.ObserveInt(strings.Index(s, "ab"))
	vrt.ObserveInt(strings.IndexByte(s, 'a'))
	vrt.ObserveInt(strings.LastIndex(s, "a"))
	vrt.ObserveInt(strings.LastIndexByte(s, ' '))
	vrt.ObserveInt(strings.Count(s, "a"))
	vrt.ObserveBool(strings.HasPrefix(s, "a"))
	vrt.ObserveBool(strings.HasSuffix(s, "ab"))
	vrt.ObserveBool(strings.Contains(s, " "))
	vrt.ObserveBool(strings.ContainsRune(s, 'b'))
	vrt.ObserveStr(strings.TrimPrefix(s, "a"))
	vrt.ObserveStr(strings.TrimSuffix(s, "b"))
	vrt.ObserveInt(strings.Compare(s, "ab"))
	vrt.ObserveBool(s < "b")
	vrt.ObserveBool(s == "aab")
	a, b, ok := strings.Cut(s, ":")
	vrt.ObserveStr(a)
	vrt.ObserveStr(b)
	vrt.ObserveBool(ok)
	vrt.ObserveStr(strings.Repeat(s[:1], 3))
	vrt.ObserveStr(strings.Join([]string{s[:1], s[1:]}, ", "))
	vrt.ObserveStr(strings.ReplaceAll(s, "a", "xy"))
}

func ST_strings2() {
	s := stASCII(3)
	vrt.ObserveStr(strings.TrimSpace(s))
	vrt.ObserveStr(strings.ToLower(s))
	vrt.ObserveStr(strings.ToUpper(s))
	f := strings.Fields(s)
	vrt.ObserveInt(len(f))
	for _, x := range f {
		vrt.ObserveStr(x)
	}
	p := strings.Split(s, ",")
	vrt.ObserveInt(len(p))
	for _, x := range p {
		vrt.ObserveStr(x)
	}
	vrt.ObserveStr(strings.Trim(s, " ,"))
	vrt.ObserveStr(strings.TrimRight(s, "\n"))
	vrt.ObserveStr(strings.TrimLeft(s, "0"))
	vrt.ObserveBool(strings.EqualFold(s, "aBc"))
	vrt.ObserveInt(strings.IndexAny(s, ",;"))
	var sb strings.Builder
	sb.WriteString(s)
	sb.WriteByte('!')
	sb.WriteString(s[1:])
	vrt.ObserveStr(sb.String())
	vrt.ObserveInt(sb.Len())
	vrt.ObserveStr(strings.Map(func(r rune) rune {
		if r == 'a' {
			return -1
		}
		return r + 1
	}, s))
	t := stStr(2)
	vrt.ObserveStr(strings.TrimSpace(t)) // non-ASCII bytes as well
}

func ST_bytes() {
	b := vrt.Bytes(3)
	vrt.ObserveInt(bytes.IndexByte(b, 0))
	vrt.ObserveInt(bytes.Index(b, []byte("ab")))
	vrt.ObserveBool(bytes.Equal(b, []byte("abc")))
	vrt.ObserveBool(bytes.HasPrefix(b, []byte("a")))
	vrt.ObserveInt(bytes.Compare(b, []byte("ab")))
	vrt.ObserveBytes(bytes.TrimSpace(b))
	x, y, ok := bytes.Cut(b, []byte{0})
	vrt.ObserveBytes(x)
	vrt.ObserveBytes(y)
	vrt.ObserveBool(ok)
	vrt.ObserveInt(bytes.Count(b, []byte("a")))
	var buf bytes.Buffer
	buf.Write(b)
	buf.WriteString("zz")
	buf.WriteByte(b[0])
	vrt.ObserveBytes(buf.Bytes())
	c := append([]byte("q"), b...)
	vrt.ObserveBytes(c)
}

func ST_strconv() {
	s := stStr(2)
	i, err := strconv.Atoi(s)
	vrt.ObserveInt(i)
	vrt.ObserveErr(err)
	v := vrt.Int()
	vrt.Assume(v >= -3 && v < 12)
	vrt.ObserveStr(strconv.Itoa(v))
	vrt.ObserveStr(strconv.Itoa(v * 1000))
	vrt.ObserveStr(strconv.FormatUint(uint64(v+3), 16))
}

func ST_strconv2() {
	s := stStr(2)
	u, err := strconv.ParseUint("0"+s, 0, 64)
	vrt.Observe(u)
	vrt.ObserveErr(err)
}

func ST_strconv3() {
	s := stStr(2)
	h, err := strconv.ParseUint(s, 16, 8)
	vrt.Observe(h)
	vrt.ObserveErr(err)
	n, err := strconv.ParseInt(s+"0", 10, 8)
	vrt.ObserveI64(n)
	vrt.ObserveErr(err)
	bo, err := strconv.ParseBool(s[:1])
	vrt.ObserveBool(bo)
	vrt.ObserveErr(err)
}

type stStringer struct{ a, b int }

func (s stStringer) String() string { return "<" + strconv.Itoa(s.a) + ">" }

func ST_fmt() {
	s := stStr(2)
	v := vrt.Int()
	vrt.Assume(v >= -2 && v < 11)
	vrt.ObserveStr(fmt.Sprintf("%s|%d|%v", s, v, v))
	vrt.ObserveStr(fmt.Sprintf("%q", "a\"b\n")) // %q of a symbolic string is unsupported (reported, never guessed)
	vrt.ObserveStr(fmt.Sprintf("%02d-%4d-%-3d|", v, v, v))
	vrt.ObserveStr(fmt.Sprintf("%x %X %#x %08x", v+2, v+2, v+2, v+2))
	vrt.ObserveStr(fmt.Sprintf("%t %c %%", v > 3, 'a'+rune(v+2)))
	vrt.ObserveStr(fmt.Sprintf("%v %v", stStringer{v, 1}, errors.New(s)))
	vrt.ObserveStr(fmt.Sprint(s, v, "x", "y", v))
	vrt.ObserveStr(fmt.Sprintf("%5s|%-5s|%.1s", "ab", "cd", "ef"))
	vrt.ObserveStr(fmt.Sprintf("%d%%", v))
	// error texts are not modelled for symbolic scalars (Errorf prints a placeholder for
	// them: stated stub), so only concrete operands here
	e := fmt.Errorf("wrap %d %s: %w", 7, "k", errSentinel)
	vrt.ObserveStr(e.Error())
	vrt.ObserveBool(errors.Is(e, errSentinel))
}

var errSentinel = errors.New("sentinel")

func stInstant() (time.Time, int64) {
	day := vrt.PoolDay(9)
	tod := vrt.SecondOfDay()
	return time.Unix(day*86400+tod, 0).UTC(), day
}

func ST_time() {
	t, day := stInstant()
	y, m, d := t.Date()
	vrt.ObserveInt(y)
	vrt.ObserveInt(int(m))
	vrt.ObserveInt(d)
	vrt.ObserveInt(int(t.Weekday()))
	vrt.ObserveInt(t.YearDay())
	vrt.ObserveStr(t.Format(time.DateOnly))
	b := time.Date(y, m, d, 0, 0, 0, 0, time.UTC)
	vrt.ObserveI64(b.Unix() - day*86400)
	vrt.ObserveBool(t.Before(b))
	vrt.ObserveBool(t.Equal(b))
	vrt.ObserveBool(t.IsZero())
	vrt.ObserveBool(time.Time{}.IsZero())
	vrt.ObserveI64(time.Time{}.Unix())
}

func ST_time2() {
	t, _ := stInstant()
	y, m, d := t.Date()
	incr := vrt.Int()
	vrt.Assume(incr >= -1 && incr <= 8)
	e := time.Date(y, m, d+incr, 0, 0, 0, 0, time.UTC)
	vrt.ObserveI64(e.Unix())
	vrt.ObserveBool(e.After(t))
}

func ST_time3() {
	t, _ := stInstant()
	y, m, d := t.Date()
	e := time.Date(y, m, d+3, 0, 0, 0, 0, time.UTC)
	vrt.ObserveI64(int64(e.Sub(t) / time.Second))
}

func ST_time4() {
	day := vrt.PoolDay(2)
	t := time.Unix(day*86400+vrt.SecondOfDay(), 0).UTC()
	vrt.ObserveI64(t.AddDate(0, 0, -7).Unix())
	vrt.ObserveI64(t.Add(-21 * 24 * time.Hour).Unix())
}

// ST_clock: time-of-day fields and full formatting, for a concrete day and a second of
// the day from a small symbolic window (formatting a symbolic clock is slow for the solver).
func ST_clock() {
	day := vrt.PoolDay(3)
	w := int64(vrt.U8() % 8)
	tod := []int64{0, 3599, 43200, 86392}[vrt.Choose(4)] + w
	t := time.Unix(day*86400+tod, 0).UTC()
	vrt.ObserveInt(t.Hour())
	vrt.ObserveInt(t.Minute())
	vrt.ObserveInt(t.Second())
	vrt.ObserveI64(t.Truncate(24 * time.Hour).Unix())
	vrt.ObserveI64(t.AddDate(0, 1, 0).Unix())
	loc := time.FixedZone("x", 5*3600)
	yy, mm, dd := t.In(loc).Date()
	vrt.ObserveInt(yy*10000 + int(mm)*100 + dd)
}

// ST_format: full formatting of concrete instants.
func ST_format() {
	day := vrt.PoolDay(5)
	tod := []int64{0, 3599, 43200, 86399}[vrt.Choose(4)]
	t := time.Unix(day*86400+tod, 0).UTC()
	vrt.ObserveStr(t.Format(time.RFC3339))
	vrt.ObserveStr(t.In(time.FixedZone("x", -7*3600)).Format(time.RFC3339))
	vrt.ObserveStr(t.Format("2006-01-02 15:04:05.000 Mon Jan"))
}

func ST_timeparse() {
	base := []string{"2024-01-07", "2023-02-29", "2024-1-7"}[vrt.Choose(3)]
	b := []byte(base)
	k := []int{6, 9}[vrt.Choose(2)]
	if k >= len(b) {
		k = len(b) - 1
	}
	c := vrt.U8()
	vrt.Assume(c < 0x80)
	b[k] = c
	t, err := time.Parse(time.DateOnly, string(b))
	vrt.ObserveErr(err)
	if err == nil {
		vrt.ObserveI64(t.Unix())
		vrt.ObserveStr(t.Format(time.DateOnly))
	}
	t2, err := time.Parse(time.RFC3339, string(b)+"T00:00:00Z")
	vrt.ObserveErr(err)
	if err == nil {
		vrt.ObserveI64(t2.Unix())
	}
}

func ST_sort() {
	a := []string{stStr(1), stStr(1), stStr(2)}
	sort.Strings(a)
	for _, s := range a {
		vrt.ObserveStr(s)
	}
	n := []int{int(vrt.U8()), int(vrt.U8()), int(vrt.U8()), 7}
	sort.Slice(n, func(i, j int) bool { return n[i] < n[j] })
	for _, v := range n {
		vrt.ObserveInt(v)
	}
	m := []int{int(vrt.U8()), int(vrt.U8()), 3}
	sort.Sort(sort.Reverse(sort.IntSlice(m)))
	for _, v := range m {
		vrt.ObserveInt(v)
	}
	vrt.ObserveInt(sort.SearchInts([]int{1, 4, 9}, int(vrt.U8()%12)))
	vrt.ObserveBool(sort.StringsAreSorted(a))
}

func ST_utf8() {
	s := stStr(3)
	for i := 0; i < len(s); i++ {
		vrt.Assume(s[i] < 0xE0) // 3- and 4-byte sequences with symbolic lead bytes are unsupported (reported)
	}
	n := 0
	for i, r := range s {
		vrt.ObserveInt(i)
		vrt.Observe(uint64(r))
		n++
	}
	vrt.ObserveInt(n)
	d := rune(vrt.U8())
	vrt.ObserveBool(unicode.IsSpace(d))
	vrt.ObserveBool(unicode.IsDigit(d))
	vrt.ObserveBool(unicode.IsLetter(d))
	vrt.ObserveBool(unicode.IsUpper(d))
	vrt.ObserveBool(unicode.IsLower(d))
	vrt.Observe(uint64(unicode.ToLower(d % 128)))
	vrt.Observe(uint64(unicode.ToUpper(d % 128)))
	vrt.ObserveInt(utf8.RuneLen(rune(vrt.U32() % 0x30000)))
	vrt.ObserveBool(utf8.ValidString("a\xc3\xa9" + stASCII(1)))
	vrt.ObserveInt(utf8.RuneCountInString("a\xc3\xa9" + stASCII(1)))
	vrt.ObserveStr(string(rune('a' + vrt.U8()%26)))
}

type stPair struct {
	a int
	b [2]byte
	s string
}

func ST_slices() {
	x := vrt.Bytes(4)
	y := x[1:3]
	y[0] = 'Q'
	vrt.ObserveBytes(x)
	vrt.ObserveInt(cap(y))
	z := append(y, 'R') // aliases x[3]
	vrt.ObserveBytes(x)
	vrt.ObserveBytes(z)
	w := append(x[:2:2], 'S') // fresh backing array
	w[0] = 'T'
	vrt.ObserveBytes(x)
	vrt.ObserveBytes(w)
	n := copy(x, x[1:])
	vrt.ObserveInt(n)
	vrt.ObserveBytes(x)
	n = copy(x[1:], x)
	vrt.ObserveBytes(x)
	arr := [3]int{1, int(x[0]), 3}
	brr := arr
	brr[1]++
	vrt.ObserveInt(arr[1])
	vrt.ObserveInt(brr[1])
	p := stPair{a: int(x[1]), s: "k"}
	q := p
	q.b[1] = x[2]
	q.a++
	vrt.ObserveInt(p.a + int(p.b[1]))
	vrt.ObserveInt(q.a + int(q.b[1]))
	vrt.ObserveBool(p == q)
	pp := &p
	pp.a = 9
	vrt.ObserveInt(p.a)
	var grow []int
	for i := 0; i < 9; i++ {
		grow = append(grow, i*int(x[3]))
	}
	vrt.ObserveInt(grow[8] + len(grow))
	i := int(vrt.U8() % 5)
	vrt.ObserveBytes(x[i:]) // symbolic offset
	var nilS []byte
	vrt.ObserveBool(nilS == nil)
	vrt.ObserveInt(len(nilS[0:0]))
}

func ST_maps() {
	m := map[string]int{}
	k1, k2 := stStr(1), stStr(1)
	m[k1] = 1
	m[k2] += 2
	m["a"] += 4
	vrt.ObserveInt(len(m))
	vrt.ObserveInt(m[k1])
	v, ok := m["b"]
	vrt.ObserveInt(v)
	vrt.ObserveBool(ok)
	delete(m, k2)
	vrt.ObserveInt(len(m))
	sum := 0
	for k, v := range m {
		sum += v * int(k[0])
	}
	vrt.ObserveInt(sum)
	// (a map literal with a dynamic key equal to a constant one is avoided: go/ssa adds
	// the entries in source order, the gc compiler adds the constant ones first)
	dk := vrt.U64() % 4
	vrt.Assume(dk != 2)
	mi := map[uint64]string{dk: "x", 2: "y"}
	vrt.ObserveInt(len(mi))
	vrt.ObserveStr(mi[2])
	type key struct {
		a string
		b int
	}
	ms := map[key]bool{{k1, 1}: true}
	vrt.ObserveBool(ms[key{k2, 1}])
	var nilM map[string]int
	vrt.ObserveInt(nilM["x"] + len(nilM))
}

func stDefer(x int) (r int) {
	defer func() {
		if e := recover(); e != nil {
			r = -r - 1
		}
	}()
	defer func() { r *= 2 }()
	r = x
	if x%3 == 0 {
		panic("boom")
	}
	return x + 1
}

func ST_control() {
	x := int(vrt.U8())
	vrt.ObserveInt(stDefer(x))
	acc := 0
	for i := 0; i < 6; i++ {
		if i == x%7 {
			continue
		}
		if i > x%11 {
			break
		}
		acc += i
	}
	vrt.ObserveInt(acc)
	switch {
	case x < 10:
		acc = 1
		fallthrough
	case x < 100:
		acc += 10
	default:
		acc = 100
	}
	vrt.ObserveInt(acc)
	fs := []func() int{}
	for i := 0; i < 3; i++ {
		i := i
		fs = append(fs, func() int { return i * x })
	}
	vrt.ObserveInt(fs[2]() - fs[1]())
	cnt := 0
	inc := func() { cnt += x }
	inc()
	inc()
	vrt.ObserveInt(cnt)
	var a, b = x, x + 1
	a, b = b, a
	vrt.ObserveInt(a - b)
outer:
	for i := 0; i < 3; i++ {
		for j := 0; j < 3; j++ {
			if i*j == x%5 {
				break outer
			}
			cnt++
		}
	}
	vrt.ObserveInt(cnt)
	vrt.ObserveBool(x > 3 && x%2 == 0 || x == 1)
}

type stShape interface{ Area() int }
type stSq struct{ s int }
type stRect struct{ w, h int }

func (s stSq) Area() int    { return s.s * s.s }
func (r *stRect) Area() int { return r.w * r.h }

type stBase struct{ id int }

func (b stBase) ID() int { return b.id }

type stDerived struct {
	stBase
	name string
}

type stErr struct{ code int }

func (e *stErr) Error() string { return "E" + strconv.Itoa(e.code) }

func ST_iface() {
	x := int(vrt.U8() % 9)
	var sh stShape
	if x%2 == 0 {
		sh = stSq{x}
	} else {
		sh = &stRect{x, 2}
	}
	vrt.ObserveInt(sh.Area())
	switch v := sh.(type) {
	case stSq:
		vrt.ObserveInt(v.s)
	case *stRect:
		vrt.ObserveInt(v.h)
	}
	_, isSq := sh.(stSq)
	vrt.ObserveBool(isSq)
	d := stDerived{stBase{x}, "n"}
	vrt.ObserveInt(d.ID() + d.id)
	var err error = &stErr{x}
	w := fmt.Errorf("ctx: %w", err)
	// errors.As goes through reflection and is unsupported (reported); errors.Is and
	// Unwrap are modelled
	vrt.ObserveStr(w.Error())
	vrt.ObserveBool(errors.Is(w, err))
	vrt.ObserveBool(errors.Unwrap(w) == err)
	var any1, any2 interface{} = x, x
	vrt.ObserveBool(any1 == any2)
	any2 = int64(x)
	vrt.ObserveBool(any1 == any2)
	var nilErr error
	vrt.ObserveBool(nilErr == nil)
	var np *stErr
	nilErr = np
	vrt.ObserveBool(nilErr == nil)
}

func ST_html() {
	s := stStr(3)
	vrt.ObserveStr(html.EscapeString(s))
}

func ST_path() {
	s := stASCII(3)
	vrt.ObserveStr(filepath.Join("/t", s))
	vrt.ObserveStr(filepath.Base(s))
	vrt.ObserveStr(filepath.Dir("/a/" + s))
	vrt.ObserveStr(filepath.Ext(s))
	vrt.ObserveStr(path.Base(s))
	vrt.ObserveStr(path.Clean("/x/" + s))
	vrt.ObserveBool(filepath.IsAbs(s))
	m, err := path.Match("*.json", s+"on")
	vrt.ObserveBool(m)
	vrt.ObserveErr(err)
}

func ST_repo() {
	s := stStr(3)
	vrt.Observe(uint64(hash(s)))
	n := int(vrt.U16())
	vrt.ObserveInt(round(n, 4))
	vrt.ObserveInt(round(n, 32))
	vrt.ObserveStr(DecodeStack(s + "\n\"" + s))
	vrt.ObserveBool(IsStackCounter(s))
}

// ---- models of the four concrete patterns the code under test hands to fmt.Sscanf and
// regexp (the engine does not interpret either package: each pattern has a hand-written
// model, compared here with the real implementation) ----

func ST_sscanf_semver() {
	s := "v" + stASCII(vrt.Choose(6))
	var a, b, c int
	n, err := fmt.Sscanf(s, "v%d.%d.%d", &a, &b, &c)
	vrt.ObserveInt(n)
	vrt.ObserveErr(err)
	if err == nil {
		vrt.ObserveInt(a)
		vrt.ObserveInt(b)
		vrt.ObserveInt(c)
	}
}

func ST_sscanf_semver2() {
	// full shapes with one arbitrary byte
	b := []byte([]string{"v1.22.3", "v0.0.0-rc1", "v1.2", "1.2.3", "v1.2.3.4", "v-1.+2.3", "v 1.2.3"}[vrt.Choose(7)])
	b[vrt.Choose(len(b))] = stASCII(1)[0]
	var x, y, z int
	n, err := fmt.Sscanf(string(b), "v%d.%d.%d", &x, &y, &z)
	vrt.ObserveInt(n)
	vrt.ObserveErr(err)
	if err == nil {
		vrt.ObserveInt(x*10000 + y*100 + z)
	}
}

func ST_sscanf_sentinel() {
	var line string
	switch vrt.Choose(3) {
	case 0:
		line = "sentinel " + stASCII(vrt.Choose(4))
	case 1:
		b := []byte("sentinel 4a0c")
		b[vrt.Choose(len(b))] = stASCII(1)[0]
		line = string(b)
	default:
		line = stASCII(2) + "sentinel 1f"
	}
	var v uint64
	n, err := fmt.Sscanf(line, "sentinel %x", &v)
	vrt.ObserveInt(n)
	vrt.ObserveErr(err)
	if err == nil {
		vrt.Observe(v)
	}
}

var (
	stDateRE  = regexp.MustCompile(`(\d\d\d\d-\d\d-\d\d)[.]json$`)
	stGoVerRE = regexp.MustCompile(`^-(go.+)\.[^.]+-[^.]+$`)
)

func ST_re_date() {
	b := []byte([]string{"2024-01-07.json", "local.2024-01-07.json", "x/2024-01-07.json.lock", "2024-01-07xjson", "12024-01-07.json", "2024-01-07.json\n"}[vrt.Choose(6)])
	b[vrt.Choose(len(b))] = stStr(1)[0]
	m := stDateRE.FindStringSubmatch(string(b))
	vrt.ObserveInt(len(m))
	for _, x := range m {
		vrt.ObserveStr(x)
	}
}

func ST_re_gover() {
	var s string
	if vrt.Bool() {
		b := []byte([]string{"-go1.22.3.linux-amd64", "-go1.21rc2.src-x", "-go.a-b", "go1.2.a-b", "-go1.2.a-b.c", "-go1.2.a-"}[vrt.Choose(6)])
		b[vrt.Choose(len(b))] = stStr(1)[0]
		s = string(b)
	} else {
		s = "-go" + stStr(vrt.Choose(5))
	}
	m := stGoVerRE.FindStringSubmatch(s)
	vrt.ObserveInt(len(m))
	for _, x := range m {
		vrt.ObserveStr(x)
	}
}

// arbitrary (non-ASCII) bytes where fmt skips Unicode spaces
func ST_sscanf_unispace() {
	gap := stStr(vrt.Choose(4))
	var v uint64
	n, err := fmt.Sscanf("sentinel"+gap+"1f", "sentinel %x", &v)
	vrt.ObserveInt(n)
	vrt.ObserveErr(err)
	if err == nil {
		vrt.Observe(v)
	}
	var a, b, c int
	n, err = fmt.Sscanf("v"+gap+"1.2.3", "v%d.%d.%d", &a, &b, &c)
	vrt.ObserveInt(n)
	vrt.ObserveErr(err)
	n, err = fmt.Sscanf("v1."+gap+"2.3", "v%d.%d.%d", &a, &b, &c)
	vrt.ObserveInt(n)
	vrt.ObserveErr(err)
}

func ST_atomic() {
	a, b := vrt.U64(), vrt.U64()
	var x atomic.Uint64
	x.Store(a)
	vrt.Observe(x.Add(b))
	vrt.ObserveBool(x.CompareAndSwap(a+b, b))
	vrt.ObserveBool(x.CompareAndSwap(a, 7))
	vrt.Observe(x.Swap(a ^ b))
	vrt.Observe(x.Load())
	var y atomic.Uint32
	y.Store(uint32(a))
	vrt.Observe(uint64(y.Add(uint32(b))))
	vrt.Observe(uint64(y.Add(^uint32(0)))) // decrement
	vrt.ObserveBool(y.CompareAndSwap(uint32(a)+uint32(b)-1, 3))
	var z atomic.Int64
	z.Store(int64(a))
	vrt.ObserveI64(z.Add(-int64(b)))
	var raw uint32 = uint32(b)
	vrt.Observe(uint64(atomic.AddUint32(&raw, 5)))
	vrt.Observe(uint64(atomic.LoadUint32(&raw)))
	atomic.StoreUint32(&raw, uint32(a))
	vrt.ObserveBool(atomic.CompareAndSwapUint32(&raw, uint32(a), 9))
	vrt.Observe(uint64(raw))
	var p atomic.Pointer[stPair]
	vrt.ObserveBool(p.Load() == nil)
	q := &stPair{a: int(a % 100)}
	p.Store(q)
	vrt.ObserveInt(p.Load().a)
	vrt.ObserveBool(p.CompareAndSwap(q, nil))
	var bo atomic.Bool
	bo.Store(a > b)
	vrt.ObserveBool(bo.Load())
}
