package counter

// Harness for C15 (stack counter names).

import (
	"golang.org/x/telemetry/internal/vrt"
	"golang.org/x/telemetry/internal/vrt/vruntime"
)

func c15hasNL(s string) bool {
	for i := 0; i < len(s); i++ {
		if s[i] == '\n' {
			return true
		}
	}
	return false
}

// reference ditto expansion written from the format description (same as C06's).
func c15expand(s string) string {
	if !c15hasNL(s) {
		return s
	}
	out := ""
	last := ""
	start := 0
	for i := 0; i <= len(s); i++ {
		if i < len(s) && s[i] != '\n' {
			continue
		}
		line := s[start:i]
		dot := -1
		for j := len(line) - 1; j >= 0; j-- {
			if line[j] == '.' {
				dot = j
				break
			}
		}
		if dot == 1 && line[0] == '"' {
			line = last + line[dot+1:]
		} else if dot > 0 {
			last = line[:dot+1]
		}
		if start > 0 {
			out += "\n"
		}
		out += line
		start = i + 1
	}
	return out
}

// VC15_decode: DecodeStack is total on arbitrary strings, the identity on names without a
// newline, agrees with the reference expander, and IsStackCounter <=> contains newline.
func VC15_decode() {
	n := vrt.Choose(vrt.Param("max_len", 7) + 1)
	s := vrt.String(n)
	d := DecodeStack(s)
	nl := c15hasNL(s)
	vrt.Assert(IsStackCounter(s) == nl, "IsStackCounter: exactly when the name contains a newline")
	if !nl {
		vrt.Assert(d == s, "DecodeStack: identity on ordinary counter names")
		return
	}
	vrt.Assert(d == c15expand(s), "DecodeStack: equals the reference expansion")
}

type c15frame struct {
	path, fn   string // Function = path + "." + fn, or fn alone when noDot
	noDot      bool
	hasFunc    bool
	line, eln  int
	pcoff      uintptr
}

func c15render(prefix string, fs []c15frame) string {
	out := prefix
	for _, f := range fs {
		out += "\n"
		p := f.path
		if f.noDot {
			p = ""
		}
		out += p + "." + f.fn + ":"
		if f.hasFunc {
			out += c15signed(f.line - f.eln)
		} else {
			out += "=" + c15dec(f.line)
		}
		out += ",+0x" + c15hex(uint64(f.pcoff))
	}
	return out
}

func c15dec(n int) string {
	if n == 0 {
		return "0"
	}
	s := ""
	for n > 0 {
		s = string(rune('0'+n%10)) + s
		n /= 10
	}
	return s
}
func c15signed(n int) string {
	if n < 0 {
		return "-" + c15dec(-n)
	}
	return "+" + c15dec(n)
}
func c15hex(n uint64) string {
	if n == 0 {
		return "0"
	}
	s := ""
	for n > 0 {
		s = string("0123456789abcdef"[n%16]) + s
		n /= 16
	}
	return s
}

func c15frames(k, maxPath, maxFn int, allowNoDot bool) ([]c15frame, []vruntime.Frame) {
	fs := make([]c15frame, k)
	rf := make([]vruntime.Frame, k)
	for i := range fs {
		f := &fs[i]
		f.path = vrt.String(1 + vrt.Choose(maxPath))
		f.fn = vrt.String(1 + vrt.Choose(maxFn))
		// Go symbols contain no newline or quote; function names carry no further dot
		// (the encoder splits at the last dot).
		for j := 0; j < len(f.path); j++ {
			vrt.Assume(f.path[j] != '\n' && f.path[j] != '"')
		}
		for j := 0; j < len(f.fn); j++ {
			vrt.Assume(f.fn[j] != '\n' && f.fn[j] != '"' && f.fn[j] != '.')
		}
		if allowNoDot {
			f.noDot = vrt.Bool()
		}
		f.hasFunc = vrt.Bool()
		f.line = vrt.Choose(3)
		f.eln = vrt.Choose(2)
		f.pcoff = uintptr(vrt.Choose(2)) * 17
		fn := f.path + "." + f.fn
		if f.noDot {
			fn = f.fn
		}
		rf[i] = vruntime.Frame{PC: 100 + f.pcoff, Entry: 100, Function: fn, Line: f.line}
		if f.hasFunc {
			rf[i].Func = &vruntime.Func{EntryLine: f.eln}
		}
	}
	return fs, rf
}

// VC15_roundtrip: DecodeStack(EncodeStack(frames)) is the uncompressed rendering of the
// same frames, for frame functions of the form importpath.name.
func VC15_roundtrip() {
	k := 1 + vrt.Choose(vrt.Param("max_frames", 2))
	fs, rf := c15frames(k, vrt.Param("max_path", 2), vrt.Param("max_fn", 1), false)
	vruntime.FramesHook = func(pcs []uintptr) []vruntime.Frame { return rf }
	prefix := "p"
	pcs := make([]uintptr, k)
	enc := EncodeStack(pcs, prefix)
	vrt.Assert(IsStackCounter(enc), "EncodeStack: result is a stack counter name")
	vrt.Assert(len(enc) <= 4096, "EncodeStack: at most 4096 bytes")
	want := c15render(prefix, fs)
	vrt.Assert(DecodeStack(enc) == want, "DecodeStack(EncodeStack(frames)) is the uncompressed rendering")
}

// VC15_roundtrip_nodot: the same, also allowing frames whose symbol has no dot (empty
// import path), as for non-Go symbols.
func VC15_roundtrip_nodot() {
	k := 1 + vrt.Choose(vrt.Param("max_frames", 2))
	fs, rf := c15frames(k, vrt.Param("max_path", 1), vrt.Param("max_fn", 1), true)
	vruntime.FramesHook = func(pcs []uintptr) []vruntime.Frame { return rf }
	pcs := make([]uintptr, k)
	enc := EncodeStack(pcs, "p")
	want := c15render("p", fs)
	vrt.Assert(DecodeStack(enc) == want, "DecodeStack(EncodeStack(frames)) is the uncompressed rendering (dotless symbols allowed)")
}

// VC15_inject: two frame sequences that render differently get different encoded names
// (not truncated), and equal sequences get equal names.
func VC15_inject() {
	k := 1 + vrt.Choose(vrt.Param("max_frames", 2))
	fa, ra := c15frames(k, vrt.Param("max_path", 1), 1, false)
	fb, rb := c15frames(k, vrt.Param("max_path", 1), 1, false)
	pcs := make([]uintptr, k)
	vruntime.FramesHook = func([]uintptr) []vruntime.Frame { return ra }
	ea := EncodeStack(pcs, "p")
	vruntime.FramesHook = func([]uintptr) []vruntime.Frame { return rb }
	eb := EncodeStack(pcs, "p")
	same := c15render("p", fa) == c15render("p", fb)
	vrt.Assert((ea == eb) == same, "EncodeStack: names are equal exactly when the rendered stacks are equal")
}

// VC15_truncate: names longer than the limit are cut to exactly 4096 bytes and end in the
// truncation marker; shorter ones are untouched.
func VC15_truncate() {
	// a first frame whose function name length puts the total near the limit, and
	// optionally a second frame of the same package (its line starts with a ditto mark)
	base := len("p\n" + "pk." + ":+0,+0x0")
	n := 4096 - base - 16 + vrt.Choose(22) // first line ends 16 bytes before .. 5 bytes after the limit
	fn := make([]byte, n)
	for i := range fn {
		fn[i] = 'a'
	}
	fn[0] = vrt.U8()
	vrt.Assume(fn[0] != '.' && fn[0] != '\n' && fn[0] != '"')
	rf := []vruntime.Frame{{PC: 100, Entry: 100, Function: "pk." + string(fn), Func: &vruntime.Func{}}}
	total := base + n
	second := ""
	if vrt.Bool() {
		f2 := []string{"g", "gggggggggggggggggggggggggggggg"}[vrt.Choose(2)]
		rf = append(rf, vruntime.Frame{PC: 200, Entry: 200, Function: "pk." + f2, Func: &vruntime.Func{}})
		second = "\n\"." + f2 + ":+0,+0x0"
		total += len(second)
	}
	vruntime.FramesHook = func([]uintptr) []vruntime.Frame { return rf }
	enc := EncodeStack(make([]uintptr, len(rf)), "p")
	vrt.Assert(len(enc) <= 4096, "EncodeStack: never longer than 4096 bytes")
	const marker = "\ntruncated\n"
	if total > 4096 {
		vrt.Assert(len(enc) == 4096 && enc[len(enc)-len(marker):] == marker, "EncodeStack: truncated names end in the marker")
	} else {
		vrt.Assert(len(enc) == total && enc[len(enc)-len(marker):] != marker, "EncodeStack: names within the limit are not marked")
		if second != "" {
			vrt.Assert(enc[len(enc)-len(second):] == second, "EncodeStack: within the limit no frame is dropped")
		}
	}
}

// VC15_cache: Inc from the same PCs reaches one counter; from different PCs (symbolising
// to different frames) two counters with different names.
func VC15_cache() {
	depth := 1 + vrt.Choose(2)
	a := make([]uintptr, depth)
	b := make([]uintptr, depth)
	for i := range a {
		a[i] = uintptr(1 + vrt.Choose(2))
		b[i] = uintptr(1 + vrt.Choose(2))
	}
	var cur []uintptr
	vruntime.CallersHook = func(pcs []uintptr) int { return copy(pcs, cur) }
	vruntime.FramesHook = func(pcs []uintptr) []vruntime.Frame {
		fs := make([]vruntime.Frame, len(pcs))
		for i, pc := range pcs {
			fs[i] = vruntime.Frame{PC: 100 + pc, Entry: 100, Function: "pk.f", Func: &vruntime.Func{}}
		}
		return fs
	}
	f := &file{}
	sc := &StackCounter{name: "s", depth: depth, file: f}
	cur = a
	sc.Inc()
	cur = b
	sc.Inc()
	same := true
	for i := range a {
		same = same && a[i] == b[i]
	}
	if same {
		vrt.Assert(len(sc.stacks) == 1, "StackCounter.Inc: same call stack hits one counter")
		vrt.Assert(sc.stacks[0].counter.state.load().extra() == 2, "StackCounter.Inc: both increments land on it")
	} else {
		vrt.Assert(len(sc.stacks) == 2, "StackCounter.Inc: different call stacks hit different counters")
		vrt.Assert(sc.stacks[0].counter.Name() != sc.stacks[1].counter.Name(), "StackCounter.Inc: different stacks have different names")
	}
}

// VC15_deep: the same for deep stacks (more than 32 frames, still short of truncation)
// that differ in a single frame anywhere - innermost, around the 32nd, outermost.
func VC15_deep() {
	depth := []int{33, 40, 64}[vrt.Choose(3)]
	a := make([]uintptr, depth)
	b := make([]uintptr, depth)
	for i := range a {
		a[i] = uintptr(1 + i%3)
		b[i] = a[i]
	}
	pos := []int{-1, 0, 31, 32, depth - 1}[vrt.Choose(5)]
	if pos >= 0 {
		delta := vrt.U8()
		vrt.Assume(delta >= 1 && delta <= 6) // formatting concretises it
		b[pos] = a[pos] + uintptr(delta)
	}
	var cur []uintptr
	vruntime.CallersHook = func(pcs []uintptr) int { return copy(pcs, cur) }
	vruntime.FramesHook = func(pcs []uintptr) []vruntime.Frame {
		fs := make([]vruntime.Frame, len(pcs))
		for i, pc := range pcs {
			fs[i] = vruntime.Frame{PC: 100 + pc, Entry: 100, Function: "pk.f", Func: &vruntime.Func{}}
		}
		return fs
	}
	f := &file{}
	sc := &StackCounter{name: "s", depth: depth, file: f}
	cur = a
	sc.Inc()
	cur = b
	sc.Inc()
	if pos < 0 {
		vrt.Assert(len(sc.stacks) == 1, "StackCounter.Inc (deep): same call stack hits one counter")
	} else {
		vrt.Assert(len(sc.stacks) == 2, "StackCounter.Inc (deep): stacks differing in one frame hit different counters")
		if len(sc.stacks) == 2 {
			n0, n1 := sc.stacks[0].counter.Name(), sc.stacks[1].counter.Name()
			vrt.Assert(len(n0) < maxNameLen && n0 != n1, "StackCounter.Inc (deep): untruncated and different names")
		}
	}
}
