package chartconfig

// Harness for C17, chart configuration parsing: total on arbitrary text, and
// render-then-parse returns the same records.

import "golang.org/x/telemetry/internal/vrt"

// VC17_total: Parse of K lines of arbitrary bytes (any text is such a join) terminates
// with records or an error, never a panic.
func VC17_total() {
	k := 1 + vrt.Choose(vrt.Param("lines", 2))
	var data []byte
	for i := 0; i < k; i++ {
		if i > 0 {
			data = append(data, '\n')
		}
		var line []byte
		switch vrt.Choose(4) {
		case 0: // arbitrary bytes
			line = vrt.Bytes(vrt.Choose(vrt.Param("linelen", 3) + 1))
			for _, b := range line {
				vrt.Assume(b != '\n')
			}
		case 1: // a field line with an arbitrary value
			key := []string{"title:", "counter:", "depth:", "issue:", "version:", "error:", "bogus:"}[vrt.Choose(7)]
			val := vrt.Bytes(vrt.Choose(vrt.Param("vallen", 3) + 1))
			for _, b := range val {
				vrt.Assume(b != '\n')
			}
			if key == "error:" {
				val = []byte([]string{"", "0.5", "x", "1e"}[vrt.Choose(4)]) // strconv.ParseFloat is not interpreted symbolically
			}
			line = append([]byte(key), val...)
		case 2:
			line = []byte("---")
		case 3: // brace structure around a counter field
			line = []byte([]string{"counter: a:{x,", "y}", "counter: a:{x}", "}", "{", "counter: a:{x,}", "counter: }{", "  z,"}[vrt.Choose(8)])
		}
		data = append(data, line...)
	}
	recs, err := Parse(data)
	vrt.Reach("returned")
	if err != nil {
		vrt.Assert(recs == nil, "an error comes without records")
	}
}

func c17val(max int) string {
	s := vrt.String(1 + vrt.Choose(max))
	for i := 0; i < len(s); i++ {
		c := s[i]
		// printable ASCII without comment, brace and list characters; no blanks (so no edge blanks)
		vrt.Assume(c > ' ' && c < 0x7f && c != '#' && c != '{' && c != '}' && c != ',')
	}
	return s
}

// VC17_roundtrip: records rendered in the documented syntax parse back to themselves.
func VC17_roundtrip() {
	n := 1 + vrt.Choose(vrt.Param("records", 2))
	var want []ChartConfig
	text := ""
	for i := 0; i < n; i++ {
		var r ChartConfig
		if i > 0 {
			text += "---\n"
		}
		switch vrt.Choose(3) {
		case 1:
			text += "# a comment\n\n"
		case 2:
			text += "# was counter: p:{" + c17val(1) + "," + c17val(1) + "}  (comments may hold any text, braces included)\n"
		}
		r.Title = c17val(vrt.Param("vallen", 2))
		text += "title: " + r.Title + "\n"
		if vrt.Bool() {
			r.Description = c17val(2)
			text += "description:" + r.Description + "  # trailing comment\n"
		}
		for k := vrt.Choose(3); k > 0; k-- {
			v := c17val(1)
			r.Issue = append(r.Issue, v)
			text += "issue: " + v + "\n"
		}
		if vrt.Bool() {
			r.Type = "partition"
			text += "type: partition\n"
		}
		if vrt.Bool() {
			r.Program = "cmd/" + c17val(1)
			text += "program: " + r.Program + "\n"
		}
		switch vrt.Choose(4) {
		case 1:
			r.Counter = c17val(2)
			text += "counter: " + r.Counter + "\n"
		case 2:
			a, b := c17val(1), c17val(1)
			r.Counter = "p:{" + a + "," + b + "}"
			text += "counter: " + r.Counter + "\n"
		case 3: // bucket list over several lines
			a, b := c17val(1), c17val(1)
			r.Counter = "p:{" + a + "," + b + "}"
			// the opening line may end in blanks or a comment
			open := []string{"", " ", "\t", "  # note"}[vrt.Choose(4)]
			text += "counter: p:{" + open + "\n  " + a + ",\n  " + b + "\n}\n"
		}
		if vrt.Bool() {
			if vrt.Choose(4) == 0 {
				// Depth is a 64-bit int: a value beyond 32 bits round-trips too
				r.Depth = 1 << 32
				text += "depth: 4294967296\n"
			} else {
				d := int(vrt.U8() % 100)
				r.Depth = d
				text += "depth: " + string(rune('0'+d/10)) + string(rune('0'+d%10)) + "\n"
			}
		}
		if vrt.Bool() {
			r.Version = "v1." + c17val(1)
			text += "version: " + r.Version + "\n"
		}
		want = append(want, r)
	}
	got, err := Parse([]byte(text))
	vrt.Assert(err == nil, "a rendering of valid records parses")
	if err != nil {
		return
	}
	vrt.Assert(len(got) == len(want), "parsing returns as many records as were rendered")
	for i := range want {
		if i >= len(got) {
			break
		}
		g, w := got[i], want[i]
		vrt.Assert(g.Title == w.Title && g.Description == w.Description && g.Type == w.Type && g.Program == w.Program && g.Module == w.Module, "text fields round-trip")
		vrt.Assert(g.Counter == w.Counter, "the counter expression round-trips (bucket lists may span lines)")
		vrt.Assert(g.Depth == w.Depth && g.Version == w.Version && g.Error == w.Error, "depth, version and error round-trip")
		vrt.Assert(len(g.Issue) == len(w.Issue), "repeated issue fields accumulate")
		for k := range w.Issue {
			if k < len(g.Issue) {
				vrt.Assert(g.Issue[k] == w.Issue[k], "issues keep their order")
			}
		}
	}
}
