package main

// Harness for C17, upload-config generation: each record's counter appears under its
// program as a stack or a counter, with every known version not older than the smallest
// minimum version of that program's records; padded version lists contain all real
// versions, are sorted and free of duplicates.

import (
	"golang.org/x/mod/semver"
	"golang.org/x/telemetry/internal/chartconfig"
	"golang.org/x/telemetry/internal/telemetry"
	"golang.org/x/telemetry/internal/vrt"
)

var (
	c17toolchain = []string{"v0.0.1-go1.21.0.linux-amd64", "v0.0.1-go1.21.0.darwin-arm64", "v0.0.1-go1.21.5.linux-amd64", "v0.0.1-go1.22.0.linux-amd64", "v0.0.1-go1.22rc1.linux-amd64"}
	c17goversions = []string{"go1.21.0", "go1.21.5", "go1.22rc1", "go1.22.0"}
	c17modvers   = []string{"v0.9.0", "v1.0.0", "v1.1.0-pre.1", "v1.1.0", "v1.2.0"}
	c17mins      = []string{"", "v1.0.0", "v1.1.0", "v1.1.0-pre.1", "v2.0.0"}
	c17gomins    = []string{"", "go1.21.5", "go1.22.0", "go1.21"}
)

const (
	c17tool = "cmd/go"
	c17prog = "example.com/tool/cmd/x"
	c17mod  = "example.com/tool"
)

func c17record(i int) chartconfig.ChartConfig {
	r := chartconfig.ChartConfig{Title: "t", Issue: []string{"i"}, Type: "partition"}
	name := vrt.String(1 + vrt.Choose(2))
	r.Counter = name
	if vrt.Bool() {
		r.Program = c17tool
		r.Version = c17gomins[vrt.Choose(len(c17gomins))]
	} else {
		r.Program = c17prog
		r.Module = c17mod
		r.Version = c17mins[vrt.Choose(len(c17mins))]
	}
	d := int(vrt.U8() % 4)
	if d > 0 {
		r.Type = "stack"
		r.Depth = d
	} else if vrt.Bool() {
		// a stack-typed record without a depth is valid input (validate accepts it) and is a counter
		r.Type = "stack"
	}
	return r
}

// VC17_generate
func VC17_generate() {
	versionsForTesting = map[string][]string{"golang.org/toolchain": c17toolchain, c17mod: c17modvers}
	n := 1 + vrt.Choose(vrt.Param("records", 2))
	var recs []chartconfig.ChartConfig
	for i := 0; i < n; i++ {
		recs = append(recs, c17record(i))
	}
	pad := padding{}
	ucfg, err := generate(recs, map[string]padding{c17prog: pad})
	vrt.Assert(err == nil && ucfg != nil, "valid records generate a configuration")
	if err != nil || ucfg == nil {
		return
	}
	for _, r := range recs {
		var pc *telemetry.ProgramConfig
		for _, p := range ucfg.Programs {
			if p.Name == r.Program {
				vrt.Assert(pc == nil, "one entry per program")
				pc = p
			}
		}
		vrt.Assert(pc != nil, "every record's program is listed")
		if pc == nil {
			continue
		}
		inC, inS := 0, 0
		for _, c := range pc.Counters {
			if c.Name == r.Counter && c.Depth == r.Depth {
				inC++
			}
		}
		for _, c := range pc.Stacks {
			if c.Name == r.Counter && c.Depth == r.Depth {
				inS++
			}
		}
		if r.Depth > 0 {
			vrt.Assert(inS >= 1, "a record with a depth is listed as a stack of its program")
		} else {
			vrt.Assert(inC >= 1, "a record without depth is listed as a counter of its program")
		}
	}
	// versions: every known version not older than the smallest minimum of the program's records
	for _, p := range ucfg.Programs {
		nrec := 0
		for _, r := range recs {
			if r.Program == p.Name {
				nrec++
			}
		}
		vrt.Assert(len(p.Counters)+len(p.Stacks) == nrec, "nothing but the records' counters is listed")
		anyAll := false
		for _, r := range recs {
			if r.Program == p.Name && r.Version == "" {
				anyAll = true
			}
		}
		known := c17modvers
		if p.Name == c17tool {
			known = c17goversions
		}
		for _, v := range known {
			want := anyAll
			if !anyAll {
				// v is wanted iff it is not older than the smallest of the minimums, i.e.
				// not older than at least one of them
				for _, r := range recs {
					if r.Program != p.Name {
						continue
					}
					if p.Name == c17tool {
						if c17goCmp(r.Version, v) <= 0 {
							want = true
						}
					} else if semver.Compare(r.Version, v) <= 0 {
						want = true
					}
				}
			}
			has := false
			for _, pv := range p.Versions {
				if pv == v {
					has = true
				}
			}
			vrt.Assert(has == want, "a known version is listed exactly when it is not older than the smallest minimum version of the program's records")
		}
	}
}

// c17goCmp: reference order of the pool's Go versions (release candidates before the release).
func c17goCmp(a, b string) int {
	rank := func(v string) int {
		switch v {
		case "go1.21":
			return 0
		case "go1.21.0":
			return 0
		case "go1.21.5":
			return 5
		case "go1.22rc1":
			return 9
		case "go1.22.0":
			return 10
		}
		return -1
	}
	ra, rb := rank(a), rank(b)
	switch {
	case ra < rb:
		return -1
	case ra > rb:
		return 1
	}
	return 0
}

// VC17_pad: padded version lists.
func VC17_pad() {
	var in []string
	pool := []string{"v1.0.0", "v1.1.0-pre.1", "v1.2.0", "v1.2.1-pre.2", "v1.3.0-pre.1", "v1.3.0-pre.3", "v0.9.0", "v1.1.0"}
	for _, v := range pool[:vrt.Param("poolsize", 6)] {
		if vrt.Bool() {
			in = append(in, v)
		}
	}
	m := uint8(vrt.Param("padmax", 2))
	pad := padding{releases: int(vrt.U8() % (m + 1)), maj: int(vrt.U8() % 2), majmin: int(vrt.U8() % m), patch: int(vrt.U8() % m), pre: int(vrt.U8() % 3)}
	out := padVersions(in, prereleasesForProgram(c17prog), pad)
	for _, v := range in {
		found := false
		for _, o := range out {
			if o == v {
				found = true
			}
		}
		vrt.Assert(found, "padded version lists contain all real versions")
	}
	for i := 1; i < len(out); i++ {
		vrt.Assert(semver.Compare(out[i-1], out[i]) <= 0, "padded version lists are sorted")
		vrt.Assert(out[i-1] != out[i], "padded version lists are free of duplicates")
	}
	for _, o := range out {
		vrt.Assert(semver.IsValid(o), "padded versions are semantic versions")
	}
}
