package main

// Harness for C11, uploader vs. server: the server accepts every report the uploader
// produces under a configuration, and rejects any report with contents outside it.

import (
	"math"

	tconfig "golang.org/x/telemetry/internal/config"
	"golang.org/x/telemetry/internal/counter"
	"golang.org/x/telemetry/internal/telemetry"
	"golang.org/x/telemetry/internal/upload"
	"golang.org/x/telemetry/internal/vrt"
	"golang.org/x/telemetry/internal/vrt/vspec"
)

func c11noBrace(s string) {
	for i := 0; i < len(s); i++ {
		vrt.Assume(s[i] != '{' && s[i] != '}' && s[i] != ',')
	}
}

func c11config(slen int) *telemetry.UploadConfig {
	cfg := &telemetry.UploadConfig{}
	cfg.GOOS = []string{vrt.String(1)}
	cfg.GOARCH = []string{vrt.String(1)}
	cfg.GoVersion = []string{vrt.String(slen)}
	p := &telemetry.ProgramConfig{Name: vrt.String(slen), Versions: []string{vrt.String(slen)}}
	plain := vrt.String(1 + vrt.Choose(slen))
	c11noBrace(plain)
	pre, b1, b2 := vrt.String(1), vrt.String(1), vrt.String(1)
	c11noBrace(pre)
	c11noBrace(b1)
	c11noBrace(b2)
	p.Counters = []telemetry.CounterConfig{{Name: plain, Rate: 1}, {Name: pre + "{" + b1 + "," + b2 + "}", Rate: 1}}
	p.Stacks = []telemetry.CounterConfig{{Name: vrt.String(slen), Rate: 1}}
	cfg.Programs = []*telemetry.ProgramConfig{p}
	return cfg
}

func c11file(slen int) *counter.File {
	f := &counter.File{Meta: map[string]string{}, Count: map[string]uint64{}}
	f.Meta["Program"] = vrt.String(slen)
	f.Meta["Version"] = vrt.String(slen)
	f.Meta["GoVersion"] = vrt.String(slen)
	f.Meta["GOOS"] = vrt.String(1)
	f.Meta["GOARCH"] = vrt.String(1)
	v := uint64(vrt.U32())
	f.Count[vrt.String(1+vrt.Choose(2))] = v + 1
	if vrt.Bool() {
		f.Count[vrt.String(slen)+"\n"+vrt.String(1)] = 7
	}
	return f
}

// c11x: any value computeRandom can return: a multiple of 2^-52 in [0,1).
func c11x() float64 {
	xb := vrt.U64()
	x := math.Float64frombits(xb)
	vrt.Assume(x >= 0 && x < 1)
	e := 1023 - (xb >> 52)
	mant := xb & (1<<52 - 1)
	vrt.Assume(xb != 0 && e <= 52 && mant&(uint64(1)<<e-1) == 0) // computeRandom never yields 0 (see VC11_random)
	return x
}

// VC11_accept: whatever the uploader sends under a configuration, the server accepts
// under the same configuration.
func VC11_accept() {
	slen := vrt.Param("slen", 1)
	ucfg := c11config(slen)
	f := c11file(slen)
	x := c11x()
	r, n := upload.VerifUploadReport(ucfg, []*counter.File{f}, x)
	if n == 0 {
		return
	}
	vrt.Assert(r != nil, "the request body is a report")
	if r == nil {
		return
	}
	vrt.Reach("posted")
	err := validate(r, tconfig.NewConfig(ucfg))
	listed := f.Meta["GOOS"] == ucfg.GOOS[0] && f.Meta["GOARCH"] == ucfg.GOARCH[0]
	switch {
	case len(r.Programs) > 0 && !listed:
		vrt.Assert(err == nil, "the server accepts the uploader's report for a build whose GOOS/GOARCH the configuration does not list")
	default:
		vrt.Assert(err == nil, "the server accepts every report the uploader produces under the same configuration")
	}
}

// VC11_accept2: the same for a week that holds counter files of two builds whose
// GOOS/GOARCH are arbitrary and independent of each other (a shared home directory, a
// cross-compiled tool run under emulation): whatever the uploader then sends, the server
// accepts.
func VC11_accept2() {
	ucfg := c11config(1)
	pc := ucfg.Programs[0]
	mk := func() *counter.File {
		f := &counter.File{Meta: map[string]string{}, Count: map[string]uint64{}}
		f.Meta["Program"], f.Meta["Version"], f.Meta["GoVersion"] = pc.Name, pc.Versions[0], ucfg.GoVersion[0]
		f.Meta["GOOS"], f.Meta["GOARCH"] = vrt.String(1), vrt.String(1)
		f.Count[pc.Counters[0].Name] = uint64(vrt.U32()) + 1
		return f
	}
	f1, f2 := mk(), mk()
	r, n := upload.VerifUploadReport(ucfg, []*counter.File{f1, f2}, 0.5)
	if n == 0 {
		return
	}
	vrt.Assert(r != nil, "the request body is a report")
	if r == nil {
		return
	}
	vrt.Reach("posted two builds")
	err := validate(r, tconfig.NewConfig(ucfg))
	vrt.Assert(err == nil, "the server accepts the uploader's report for a week with two builds of different platforms")
	// and the uploader leaves out no build the configuration lists
	for _, f := range []*counter.File{f1, f2} {
		if f.Meta["GOOS"] == ucfg.GOOS[0] && f.Meta["GOARCH"] == ucfg.GOARCH[0] {
			found := false
			for _, p := range r.Programs {
				found = found || (p.GOOS == f.Meta["GOOS"] && p.GOARCH == f.Meta["GOARCH"])
			}
			vrt.Assert(found, "a build the configuration lists is uploaded whatever other builds the week holds")
		}
	}
}

// VC11_reject: a report is accepted exactly when every build, counter and stack in it is
// approved by the documented configuration semantics (each field either copied from the
// configuration or arbitrary, so reports differing from an approved one in a single field occur).
func VC11_reject() {
	slen := vrt.Param("slen", 1)
	ucfg := c11config(slen)
	pc := ucfg.Programs[0]
	// exactly one field (or none) is arbitrary, the others are copied from the configuration
	which := vrt.Choose(8)
	field := 0
	pick := func(approved string, n int) string {
		field++
		if field != which {
			return approved
		}
		return vrt.String(n)
	}
	p := &telemetry.ProgramReport{
		Program: pick(pc.Name, slen), Version: pick(pc.Versions[0], slen), GoVersion: pick(ucfg.GoVersion[0], slen),
		GOOS: pick(ucfg.GOOS[0], 1), GOARCH: pick(ucfg.GOARCH[0], 1),
		Counters: map[string]int64{}, Stacks: map[string]int64{},
	}
	if vrt.Bool() {
		p.Counters[pick(pc.Counters[0].Name, 1+vrt.Choose(2))] = 1
	}
	if vrt.Bool() {
		p.Stacks[pick(pc.Stacks[0].Name, slen)+"\n"+vrt.String(1)] = 1
	}
	r := &telemetry.Report{Week: "2024-01-07", Config: "v1.2.3", X: 0.25, Programs: []*telemetry.ProgramReport{p}}
	err := validate(r, tconfig.NewConfig(ucfg))
	ok := vspec.BuildOK(ucfg, p.Program, p.Version, p.GoVersion, p.GOOS, p.GOARCH)
	for k := range p.Counters {
		a, _ := vspec.CounterRate(ucfg, p.Program, k)
		ok = ok && a
	}
	for k := range p.Stacks {
		a, _ := vspec.StackRate(ucfg, p.Program, k)
		ok = ok && a
	}
	vrt.Assert((err == nil) == ok, "the server accepts a report exactly when all its contents are approved")
}

// VC11_random: the values the uploader's random draw can produce, for arbitrary random
// bytes: strictly between 0 and 1 — in particular never the 0 that the server rejects.
func VC11_random() {
	draws := 0
	x := upload.VerifComputeRandom(func() []byte {
		draws++
		if draws > vrt.Param("draws", 2) {
			return []byte{0, 0, 0, 0, 0, 0, 0xe8, 0x3f} // 0.75: ends the rejection loop
		}
		return vrt.Bytes(8)
	})
	vrt.Assert(x != 0, "the uploader's X is never exactly 0 (the server treats 0 as missing)")
	vrt.Assert(x > 0 && x < 1, "the uploader's X lies strictly between 0 and 1")
}
