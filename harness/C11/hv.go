package view

// Harness for C11, uploader vs. local viewer: the viewer describes a data set or counter
// as excluded from upload exactly when the uploader excludes it.

import (
	"golang.org/x/telemetry/internal/config"
	icounter "golang.org/x/telemetry/internal/counter"
	"golang.org/x/telemetry/internal/telemetry"
	"golang.org/x/telemetry/internal/upload"
	"golang.org/x/telemetry/internal/vrt"
)

func c11vNoBrace(s string) {
	for i := 0; i < len(s); i++ {
		vrt.Assume(s[i] != '{' && s[i] != '}' && s[i] != ',')
	}
}

// names are shown inside <code>..</code>; the harness alphabet has none of the characters
// html.EscapeString rewrites, no '<' '/' (so the markers cannot be forged) and no newline
func c11vPlain(s string) {
	for i := 0; i < len(s); i++ {
		c := s[i]
		vrt.Assume(c != '<' && c != '>' && c != '&' && c != '\'' && c != '"' && c != '/' && c != '\n' && c != ',' && c != ' ')
	}
}

func c11vContains(s, sub string) bool {
	for i := 0; i+len(sub) <= len(s); i++ {
		if s[i:i+len(sub)] == sub {
			return true
		}
	}
	return false
}

func VC11_viewer() {
	slen := vrt.Param("slen", 1)
	ucfg := &telemetry.UploadConfig{}
	ucfg.GOOS = []string{vrt.String(1)}
	ucfg.GOARCH = []string{vrt.String(1)}
	ucfg.GoVersion = []string{vrt.String(slen)}
	pc := &telemetry.ProgramConfig{Name: vrt.String(slen), Versions: []string{vrt.String(slen)}}
	plain := vrt.String(1 + vrt.Choose(slen))
	c11vNoBrace(plain)
	pre, b1, b2 := vrt.String(1), vrt.String(1), vrt.String(1)
	c11vNoBrace(pre)
	c11vNoBrace(b1)
	c11vNoBrace(b2)
	pc.Counters = []telemetry.CounterConfig{{Name: plain, Rate: 1}, {Name: pre + "{" + b1 + "," + b2 + "}", Rate: 1}}
	pc.Stacks = []telemetry.CounterConfig{{Name: vrt.String(slen), Rate: 1}}
	ucfg.Programs = []*telemetry.ProgramConfig{pc}

	f := &icounter.File{Meta: map[string]string{}, Count: map[string]uint64{}}
	for _, k := range []string{"Program", "Version", "GoVersion"} {
		f.Meta[k] = vrt.String(slen)
		c11vPlain(f.Meta[k])
	}
	f.Meta["GOOS"], f.Meta["GOARCH"] = vrt.String(1), vrt.String(1)
	c11vPlain(f.Meta["GOOS"])
	c11vPlain(f.Meta["GOARCH"])
	cname := vrt.String(1 + vrt.Choose(2))
	c11vPlain(cname)
	f.Count[cname] = 3
	sname := ""
	if vrt.Bool() {
		sname = vrt.String(slen)
		c11vPlain(sname)
		vrt.Assume(sname != cname)
		f.Count[sname+"\nf"] = 5
	}
	meta := map[string]string{}
	for k, v := range f.Meta {
		meta[k] = v
	}
	counts := map[string]uint64{}
	for k, v := range f.Count {
		counts[k] = v
	}

	html := string(summary(config.NewConfig(ucfg), meta, counts))
	r, n := upload.VerifUploadReport(ucfg, []*icounter.File{f}, 0.5)
	vrt.Assert(n == 1 && r != nil, "the uploader sends the week's report")
	if r == nil {
		return
	}
	var prog *telemetry.ProgramReport
	if len(r.Programs) > 0 {
		prog = r.Programs[0]
	}
	setExcluded := c11vContains(html, " is unregistered. No data from this set would be uploaded")
	listed := f.Meta["GOOS"] == ucfg.GOOS[0] && f.Meta["GOARCH"] == ucfg.GOARCH[0]
	if listed {
		vrt.Assert(setExcluded == (prog == nil), "the viewer calls a data set unregistered exactly when the uploader leaves its program out")
	} else {
		vrt.Assert(setExcluded == (prog == nil), "the viewer calls a data set unregistered exactly when the uploader leaves its program out (GOOS/GOARCH not listed)")
	}
	if setExcluded || prog == nil {
		return
	}
	vrt.Reach("set registered")
	_, up := prog.Counters[cname]
	shown := c11vContains(html, "<code>"+cname+"</code>")
	vrt.Assert(shown == !up, "the viewer lists a counter as excluded exactly when the uploader omits it")
	if sname != "" {
		_, up := prog.Stacks[sname+"\nf"]
		shown := c11vContains(html, "<code>"+sname+"</code>")
		vrt.Assert(shown == !up, "the viewer lists a stack counter as excluded exactly when the uploader omits it")
	}
}
