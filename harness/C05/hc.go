package counter

// Harness for C05 (telemetry failures never crash, hang or block the host program),
// counter side: a counter file corrupted at rest, and file-system calls that fail.

import (
	"errors"
	"time"

	"golang.org/x/telemetry/internal/telemetry"
	"golang.org/x/telemetry/internal/vrt"
	"golang.org/x/telemetry/internal/vrt/vmmap"
	"golang.org/x/telemetry/internal/vrt/vos"
)

const c5root = "/t"

func c5setup(day int64) {
	telemetry.Default = telemetry.NewDir(c5root)
	CounterTime = func() time.Time { return time.Unix(day*86400+100, 0).UTC() }
}

func c5hash(name string) uint32 {
	h := uint32(2166136261)
	for i := 0; i < len(name); i++ {
		h = (h ^ uint32(name[i])) * 16777619
	}
	return (h ^ (h >> 16)) % 512
}

func c5wr32(d []byte, i uint32, v uint32) {
	d[i], d[i+1], d[i+2], d[i+3] = byte(v), byte(v>>8), byte(v>>16), byte(v>>24)
}

func c5rd64(d []byte, i uint32) uint64 {
	var v uint64
	for k := uint32(0); k < 8; k++ {
		v |= uint64(d[i+k]) << (8 * k)
	}
	return v
}

// c5link: a record link or bucket head: empty, one of the two record slots, or any offset.
func c5link(a, b uint32) uint32 {
	switch vrt.Choose(4) {
	case 0:
		return 0
	case 1:
		return a
	case 2:
		return b
	}
	// a wild offset (arbitrary 32-bit offsets into the record accessor are decided by C06)
	wild := []uint32{1, 16380, 20000, 40, b + 32, 16384, 0xffffffff, a - 4, a + 1}
	return wild[vrt.Choose(vrt.Param("wild", 3))]
}

// VC05_corrupt: the counter file was damaged while at rest (arbitrary limit word, bucket
// head, record lengths, links including cycles, names and values in two record slots of the
// bucket of the counter being used). Opening and incrementing return, nothing panics or
// faults, and another counter's value is not changed.
func VC05_corrupt() {
	vos.Reset()
	day := vrt.DaysFromCivil(2024, 1, 10)
	c5setup(day)
	vos.AddDir(c5root + "/local")
	vos.AddFile(c5root+"/local/weekends", []byte("2\n"))
	// a healthy file with one counter "d"
	f0 := &file{buildInfo: c3bi()}
	f0.rotate1()
	(&Counter{name: "d", file: f0}).Add(7)
	m := f0.current.Load()
	hdrLen := m.hdrLen
	path := m.f.Name()
	m.close()
	nd := vos.Lookup(path)
	vrt.Assert(nd != nil && len(nd.Data) == 16384, "healthy file")
	d := nd.Data
	// where "d" lives (first record)
	tableEnd := hdrLen + 4 + 4*512
	first := (tableEnd + 31) &^ 31 // records are 32-byte aligned
	dOff := first
	name := "c"
	vrt.Assume(c5hash(name) != c5hash("d"))
	a, b := first+32, first+64
	// damage: limit word, the bucket head of "c", two record slots
	lowLimit := false
	switch vrt.Choose(3) {
	case 0: // keep
	case 1:
		lim := []uint32{20000, 0xffffff00, 0, 0xffffffff, 1, tableEnd, 16384, 16385, 40000}[vrt.Choose(vrt.Param("limits", 3))]
		c5wr32(d, hdrLen, lim)
		lowLimit = lim < dOff+32
	case 2:
		c5wr32(d, hdrLen, b+32)
	}
	c5wr32(d, hdrLen+4+4*c5hash(name), c5link(a, b))
	for _, off := range []uint32{a, b} {
		for k := uint32(0); k < 8; k++ {
			d[off+k] = vrt.U8() // value
		}
		nl := 1
		if off == a || vrt.Param("full", 0) != 0 {
			nl = vrt.Choose(4) // name length class: 0, 1, 2, huge
		}
		switch nl {
		case 3:
			// far too long, or just around the end of the mapped data: the name would
			// end exactly at it, one byte past it, or its start still lies inside
			c5wr32(d, off+8, []uint32{0x00ffffff, 16384, 0x10000, 0xffffffff, 16384 - off - 16, 16384 - off - 15, 16384 - off - 8}[vrt.Choose(7)])
		default:
			c5wr32(d, off+8, uint32(nl)|0xff000000)
		}
		if off == a || vrt.Param("full", 0) != 0 {
			c5wr32(d, off+12, c5link(a, b))
		} else {
			c5wr32(d, off+12, []uint32{0, a}[vrt.Choose(2)])
		}
		d[off+16], d[off+17] = vrt.U8(), vrt.U8()
	}
	dBefore := c5rd64(d, dOff)

	f := &file{buildInfo: c3bi()}
	f.rotate1()
	c := &Counter{name: name, file: f}
	c.Add(3)
	if vrt.Param("full", 0) != 0 {
		c.Add(4)
	}
	d2 := &Counter{name: "d", file: f}
	d2.Add(1)
	vrt.Reach("returned")
	st := c.state.load()
	vrt.Assert(!st.locked() && st.readers() == 0, "the counter is left unlocked")
	// "d" was incremented by exactly its own increment, or kept it in memory
	nd = vos.Lookup(path)
	if nd != nil && len(nd.Data) >= int(dOff)+8 {
		now := c5rd64(nd.Data, dOff)
		ok := now == dBefore+1 && d2.state.load().extra() == 0 || now == dBefore && d2.state.load().extra() == 1
		if lowLimit {
			vrt.Assert(ok, "damage does not change another counter's value [history: the allocation limit was damaged to a value below the end of existing records, so the next record is placed over one of them]")
		} else {
			vrt.Assert(ok, "a damaged bucket does not change another counter's value")
		}
	}
}

var c5errs = []error{vos.ErrNotExist, vos.ErrExist, vos.ErrPermission, vos.ErrInjected}

// VC05_faults: every single and every pair of file-system calls made while opening,
// mapping, rotating and incrementing fails with an error of any class: all calls return, nothing
// panics, counts stay in memory or are dropped, and a healthy counter file of an earlier week
// keeps its values.
func VC05_faults() {
	vos.Reset()
	day := vrt.DaysFromCivil(2024, 1, 10)
	c5setup(day)
	if vrt.Bool() {
		vos.AddDir(c5root + "/local")
		// the week-end setting: absent, proper, or damaged (blank, empty, not a digit)
		if k := vrt.Choose(6); k > 0 {
			vos.AddFile(c5root+"/local/weekends", []byte([]string{"2\n", "\n", "", " \r\n", "x"}[k-1]))
		}
	}
	n1 := vrt.Choose(vrt.Param("calls", 14) + 1) // index of the first failing call (0: none)
	n2 := 0
	if vrt.Param("pairs", 1) != 0 && n1 > 0 {
		n2 = vrt.Choose(vrt.Param("calls", 14) + 1)
	}
	e1, e2 := c5errs[vrt.Choose(len(c5errs))], c5errs[0]
	if n2 > 0 {
		e2 = c5errs[vrt.Choose(len(c5errs))]
	}
	calls := 0
	vos.FailHook = func(op, path string) error {
		calls++
		if calls == n1 {
			return e1
		}
		if n2 > 0 && calls == n1+n2 {
			return e2
		}
		return nil
	}
	vmmap.FailMmap = func(string) error {
		calls++
		if calls == n1 || (n2 > 0 && calls == n1+n2) {
			return errors.New("mmap failed")
		}
		return nil
	}
	f := &file{buildInfo: c3bi()}
	f.rotate1()
	c := &Counter{name: "c", file: f}
	c.Add(3)
	e := &Counter{name: "e", file: f}
	e.Add(2)
	c5setup(day + 10) // next week: rotation
	f.rotate1()
	c.Add(4)
	vrt.Reach("returned")
	vos.FailHook = nil
	vmmap.FailMmap = nil
	// nothing is double counted and nothing exceeds what was added
	var total uint64
	for _, nd := range vos.Nodes {
		if nd.Gone || len(nd.Name) < 9 || nd.Name[len(nd.Name)-9:] != ".v1.count" || len(nd.Data) < 16384 {
			continue
		}
		if v, ok := c3value(nd.Data, "c"); ok {
			total += v
		}
	}
	total += c.state.load().extra()
	vrt.Assert(total <= 7, "failures never create counts")
	if n1 == 0 {
		vrt.Assert(total == 7, "without failures every count is kept")
	}
	st := c.state.load()
	vrt.Assert(!st.locked() && st.readers() == 0, "the counter is left unlocked")
	if f.err != nil {
		vrt.Assert(f.current.Load() == nil, "a failed file has no mapping")
	}
}

// VC05_pending: counters incremented before the file is opened, and a file whose first
// page is full, so that flushing the first pending counter extends and remaps the file
// while the second still holds a pending amount: Open returns (nobody waits for a lock that
// is never released) and both counts are persisted.
func VC05_pending() {
	vos.Reset()
	day := vrt.DaysFromCivil(2024, 1, 10)
	c5setup(day)
	vos.AddDir(c5root + "/local")
	vos.AddFile(c5root+"/local/weekends", []byte("2\n"))
	// an existing file of this week whose first page is used up
	f0 := &file{buildInfo: c3bi()}
	f0.rotate1()
	(&Counter{name: "old", file: f0}).Add(1)
	m := f0.current.Load()
	c5wr32(m.mapping.Data, m.hdrLen, uint32(pageSize-32))
	m.close()
	f := &file{buildInfo: c3bi()}
	c := &Counter{name: "c", file: f}
	d := &Counter{name: "d", file: f}
	n1, n2 := vrt.I64(), vrt.I64()
	vrt.Assume(n1 > 0 && n1 < 1<<20 && n2 > 0 && n2 < 1<<20)
	c.Add(n1)
	d.Add(n2)
	// optionally a backlog of counters with long names, so that flushing them at the open
	// extends the file more than once (extensions nested inside one another's clean-up)
	if vrt.Bool() {
		long := make([]byte, 4000)
		for i := range long {
			long[i] = 'n'
		}
		for i := 0; i < 4; i++ {
			long[0] = byte('0' + i)
			(&Counter{name: string(long), file: f}).Add(1)
		}
	}
	f.rotate1()
	vrt.Reach("opened")
	vrt.Assert(f.err == nil && f.current.Load() != nil, "the file opens")
	for _, x := range []struct {
		c *Counter
		n int64
	}{{c, n1}, {d, n2}} {
		st := x.c.state.load()
		var persisted uint64
		for _, node := range vos.Nodes {
			if !node.Gone && len(node.Name) > 9 && node.Name[len(node.Name)-9:] == ".v1.count" && len(node.Data) >= 16384 {
				if v, ok := c3value(node.Data, x.c.name); ok {
					persisted += v
				}
			}
		}
		vrt.Assert(persisted+st.extra() == uint64(x.n), "pending counts survive the opening of a full file")
		vrt.Assert(!st.locked() && st.readers() == 0, "the counter is left unlocked")
	}
}
