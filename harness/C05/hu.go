package upload

// Harness for C05, uploader side: whatever the telemetry directory holds and whichever
// file-system call fails, upload.Run returns normally (no panic escapes) and only does
// what the mode allows.

import (
	"errors"

	"golang.org/x/telemetry/internal/vrt"
	"golang.org/x/telemetry/internal/vrt/vhttp"
	"golang.org/x/telemetry/internal/vrt/vconfigstore"
	"golang.org/x/telemetry/internal/vrt/vos"
)

var c5uerrs = []error{vos.ErrNotExist, vos.ErrExist, vos.ErrPermission, vos.ErrInjected}

func VC05_upload() {
	vuReset()
	end := vrt.DaysFromCivil(2024, 1, 7)
	week := vrt.DateStr(end)
	full := vrt.Param("full", 0) != 0
	modes := []string{"on", "local", "off", "on 2000-01-01", "\xff"}
	nm := 3
	if full {
		nm = 5
	}
	mode := modes[vrt.Choose(nm)]
	if !full || vrt.Bool() {
		vos.AddFile(vuDir+"/mode", []byte(mode))
	} else {
		mode = "local"
	}
	vconfigstore.Fails = (mode == "on" || mode == "on 2000-01-01") && vrt.Bool()
	// odd directory contents
	pool := []string{"a.json", ".json", "x.v1.count", week + ".json.lock", "local." + week + ".json", week + ".json", ".v1.count", "noise"}
	vos.AddFile(vuDir+"/local/"+week+".json", []byte("{}")) // a ready report, so that the upload path runs
	np := 5
	if full {
		np = len(pool)
	}
	for i := 0; i < vrt.Param("entries", 1); i++ {
		nm := pool[vrt.Choose(np)]
		p := vuDir + "/local/" + nm
		if vos.Lookup(p) != nil {
			continue
		}
		kinds := 2
		if full {
			kinds = 3
		}
		switch []int{0, 2, 1}[vrt.Choose(kinds)] {
		case 0:
			vos.AddFile(p, []byte("{}"))
		case 1:
			vos.AddFile(p, nil)
		case 2:
			vos.AddDir(p)
		}
	}
	if full && vrt.Bool() {
		vos.AddDir(vuDir + "/debug")
	}
	if vrt.Bool() {
		vos.AddFile(vuDir+"/upload/"+week+".json", []byte("U"))
	}
	n1 := vrt.Choose(vrt.Param("calls", 12) + 1)
	e1 := c5uerrs[vrt.Choose(vrt.Param("errs", 2))*3%4]
	calls := 0
	vos.FailHook = func(op, path string) error {
		calls++
		if calls == n1 {
			return e1
		}
		return nil
	}
	postFails := vrt.Bool()
	vhttp.PostHook = func(url string, body []byte) (int, error) {
		if postFails {
			return 0, errors.New("no answer")
		}
		return 200, nil
	}
	err := Run(RunConfig{TelemetryDir: vuDir, UploadURL: "http://srv", StartTime: vuInstant(end+3, 50)})
	_ = err
	vrt.Reach("returned")
	vos.FailHook = nil
	if len(vhttp.Log) > 0 {
		vrt.Assert(mode == "on" || mode == "on 2000-01-01", "even under failures requests are made only in mode on")
	}
}
