package storage

// Harness for C18 (file-system storage buckets confine, round-trip and list objects).

import (
	"context"
	"errors"
	"io"

	"golang.org/x/telemetry/internal/vrt"
	"golang.org/x/telemetry/internal/vrt/vos"
)

const (
	c18dir = "/data"
	c18bkt = "bkt"
	c18pre = "/data/bkt/"
)

func c18alpha(b byte) bool {
	return (b >= 'a' && b <= 'z') || (b >= '0' && b <= '9') || b == '.' || b == '-'
}

// c18comp: one path component of 1..max bytes over [a-z0-9.-], not "." or "..".
func c18comp(max int) string {
	s := vrt.String(1 + vrt.Choose(max))
	for i := 0; i < len(s); i++ {
		vrt.Assume(c18alpha(s[i]))
	}
	vrt.Assume(s != "." && s != "..")
	return s
}

// c18fixed: one component of exactly n bytes.
func c18fixed(n int) string {
	s := vrt.String(n)
	for i := 0; i < len(s); i++ {
		vrt.Assume(c18alpha(s[i]))
	}
	vrt.Assume(s != "." && s != "..")
	return s
}

// c18name: 1..3 slash-separated components.
func c18name() string {
	n := 1 + vrt.Choose(vrt.Param("comps", 2))
	s := c18comp(vrt.Param("clen", 2))
	for i := 1; i < n; i++ {
		s += "/" + c18comp(vrt.Param("clen", 2))
	}
	return s
}

func c18hasPrefix(s, p string) bool { return len(s) >= len(p) && s[:len(p)] == p }

type c18obj struct {
	name    string
	content []byte
}

func c18read(b BucketHandle, name string) ([]byte, error) {
	r, err := b.Object(name).NewReader(context.Background())
	if err != nil {
		return nil, err
	}
	defer r.Close()
	var out []byte
	buf := make([]byte, 4)
	for {
		n, err := r.Read(buf)
		out = append(out, buf[:n]...)
		if err == io.EOF {
			return out, nil
		}
		if err != nil {
			return out, err
		}
	}
}

// VC18_history: a history of writes, overwrites, reads and prefix listings against an
// in-memory map model.
func VC18_history() {
	vos.Reset()
	ctx := context.Background()
	b, err := NewFSBucket(ctx, c18dir, c18bkt)
	vrt.Assert(err == nil, "bucket is created")
	if err != nil {
		return
	}
	nn := vrt.Param("names", 2)
	names := make([]string, nn)
	for i := range names {
		names[i] = c18name()
		for j := 0; j < i; j++ {
			// distinct objects, and no object name is a directory of another (a file system cannot hold both)
			vrt.Assume(names[i] != names[j])
			vrt.Assume(!c18hasPrefix(names[i], names[j]+"/") && !c18hasPrefix(names[j], names[i]+"/"))
		}
	}
	var model []c18obj
	find := func(name string) int {
		for i := range model {
			if model[i].name == name {
				return i
			}
		}
		return -1
	}
	nops := vrt.Param("ops", 3)
	for op := 0; op < nops; op++ {
		switch vrt.Choose(3) {
		case 0: // write or overwrite
			name := names[vrt.Choose(nn)]
			content := vrt.Bytes(vrt.Choose(3))
			w, err := b.Object(name).NewWriter(ctx)
			vrt.Assert(err == nil, "writer opens")
			if err != nil {
				return
			}
			n, err := w.Write(content)
			vrt.Assert(err == nil && n == len(content), "write succeeds")
			vrt.Assert(w.Close() == nil, "close succeeds")
			if i := find(name); i >= 0 {
				model[i].content = content
			} else {
				model = append(model, c18obj{name, content})
			}
		case 1: // read
			name := names[vrt.Choose(nn)]
			got, err := c18read(b, name)
			if i := find(name); i >= 0 {
				vrt.Assert(err == nil, "a stored object can be read")
				vrt.Assert(string(got) == string(model[i].content), "reading returns the bytes last written")
			} else {
				vrt.Assert(errors.Is(err, ErrObjectNotExist), "reading an absent object reports not-exist")
			}
		case 2: // list
			prefix := vrt.String(vrt.Choose(vrt.Param("plen", 2) + 1))
			for i := 0; i < len(prefix); i++ {
				vrt.Assume(c18alpha(prefix[i]) || prefix[i] == '/')
			}
			it := b.Objects(ctx, prefix)
			var got []string
			for k := 0; k < 8; k++ {
				nm, err := it.Next()
				if errors.Is(err, ErrObjectIteratorDone) {
					break
				}
				vrt.Assert(err == nil, "listing does not fail")
				got = append(got, nm)
			}
			want := 0
			for _, o := range model {
				if c18hasPrefix(o.name, prefix) {
					want++
					seen := 0
					for _, g := range got {
						if g == o.name {
							seen++
						}
					}
					vrt.Assert(seen == 1, "listing returns every stored name with the prefix exactly once")
				}
			}
			vrt.Assert(len(got) == want, "listing returns nothing else")
		}
	}
	for _, ev := range vos.Events {
		if ev.Op == "create" || ev.Op == "write" || ev.Op == "truncate" || ev.Op == "mkdir" || ev.Op == "remove" {
			vrt.Assert(ev.Path == c18dir || ev.Path == c18dir+"/"+c18bkt || c18hasPrefix(ev.Path, c18pre), "every path touched lies inside the bucket directory")
		}
	}
}

// VC18_script: one scripted history with symbolic names, contents and prefix: write A,
// maybe write B, maybe overwrite A (shorter, equal or longer), read A, B and an absent
// name, list with a prefix.
func VC18_script() {
	vos.Reset()
	ctx := context.Background()
	b, err := NewFSBucket(ctx, c18dir, c18bkt)
	vrt.Assert(err == nil, "bucket is created")
	if err != nil {
		return
	}
	var na, nb string
	if vrt.Param("allshapes", 0) != 0 {
		na, nb = c18name(), c18name()
	} else {
		// quick tier: A is a nested name "x/y"; B is a nested name or a single two-byte
		// component (so that siblings like "x" / "x-" / "x." occur)
		na = c18fixed(1) + "/" + c18fixed(1)
		if vrt.Bool() {
			nb = c18fixed(1) + "/" + c18fixed(1)
		} else {
			nb = c18fixed(2)
		}
	}
	nc := c18comp(vrt.Param("clen", 2))
	vrt.Assume(na != nb && na != nc && nb != nc)
	// no name is a directory of another (a file system cannot hold both objects; reading
	// a name that is a directory of stored objects is outside the claim, see DESIGN.md)
	vrt.Assume(!c18hasPrefix(na, nb+"/") && !c18hasPrefix(nb, na+"/"))
	vrt.Assume(!c18hasPrefix(na, nc+"/") && !c18hasPrefix(nb, nc+"/"))
	put := func(name string, content []byte) {
		w, err := b.Object(name).NewWriter(ctx)
		vrt.Assert(err == nil, "writer opens")
		if err != nil {
			vrt.Stop()
		}
		n, err := w.Write(content)
		vrt.Assert(err == nil && n == len(content), "write succeeds")
		vrt.Assert(w.Close() == nil, "close succeeds")
	}
	ca := vrt.Bytes(1 + vrt.Choose(2))
	put(na, ca)
	haveB := vrt.Bool()
	var cb []byte
	if haveB {
		cb = vrt.Bytes(1)
		put(nb, cb)
	}
	if vrt.Bool() {
		ca = vrt.Bytes(vrt.Choose(3))
		put(na, ca)
	}
	got, err := c18read(b, na)
	vrt.Assert(err == nil && string(got) == string(ca), "reading returns the bytes last written")
	got, err = c18read(b, nb)
	if haveB {
		vrt.Assert(err == nil && string(got) == string(cb), "a second object is read back unchanged")
	} else {
		vrt.Assert(errors.Is(err, ErrObjectNotExist), "reading an absent object reports not-exist")
	}
	_, err = c18read(b, nc)
	vrt.Assert(errors.Is(err, ErrObjectNotExist), "reading a never written object reports not-exist")

	prefix := vrt.String(vrt.Choose(vrt.Param("plen", 2) + 1))
	for i := 0; i < len(prefix); i++ {
		vrt.Assume(c18alpha(prefix[i]) || prefix[i] == '/')
	}
	it := b.Objects(ctx, prefix)
	var names []string
	for k := 0; k < 4; k++ {
		nm, err := it.Next()
		if errors.Is(err, ErrObjectIteratorDone) {
			break
		}
		vrt.Assert(err == nil, "listing does not fail")
		names = append(names, nm)
	}
	cnt := func(x string) int {
		n := 0
		for _, g := range names {
			if g == x {
				n++
			}
		}
		return n
	}
	want := 0
	if c18hasPrefix(na, prefix) {
		want++
		vrt.Assert(cnt(na) == 1, "listing returns every stored name with the prefix exactly once")
	}
	if haveB && c18hasPrefix(nb, prefix) {
		want++
		vrt.Assert(cnt(nb) == 1, "listing returns every stored name with the prefix exactly once")
	}
	vrt.Assert(len(names) == want, "listing returns nothing else")
	for _, ev := range vos.Events {
		if ev.Op == "create" || ev.Op == "write" || ev.Op == "truncate" || ev.Op == "mkdir" || ev.Op == "remove" {
			vrt.Assert(ev.Path == c18dir || ev.Path == c18dir+"/"+c18bkt || c18hasPrefix(ev.Path, c18pre), "every path touched lies inside the bucket directory")
		}
	}
}

// VC18_names: the object names the services construct resolve inside the bucket.
// upload: <week>/<%g of X>.json ; merge: <date>.json ; charts: <date>.json and
// <start>_<end>.json. %g output is modelled as any 1..glen bytes over [0-9.e+-] or NaN/Inf text.
func VC18_names() {
	vos.Reset()
	bh, err := NewFSBucket(context.Background(), c18dir, c18bkt)
	vrt.Assert(err == nil, "bucket is created")
	if err != nil {
		return
	}
	b := bh.(*FSBucket)
	date := func() string {
		s := vrt.String(10)
		for i := 0; i < 10; i++ {
			if i == 4 || i == 7 {
				vrt.Assume(s[i] == '-')
			} else {
				vrt.Assume(s[i] >= '0' && s[i] <= '9')
			}
		}
		return s
	}
	var name string
	switch vrt.Choose(3) {
	case 0:
		var g string
		switch vrt.Choose(4) {
		case 0:
			g = "NaN"
		case 1:
			g = "+Inf"
		case 2:
			g = "-Inf"
		default:
			g = vrt.String(1 + vrt.Choose(vrt.Param("glen", 3)))
			for i := 0; i < len(g); i++ {
				c := g[i]
				vrt.Assume((c >= '0' && c <= '9') || c == '.' || c == 'e' || c == '+' || c == '-')
			}
		}
		name = date() + "/" + g + ".json"
	case 1:
		name = date() + ".json"
	case 2:
		name = date() + "_" + date() + ".json"
	}
	fn := NewFSObject(b, name).(*FSObject).Filename()
	vrt.Assert(c18hasPrefix(fn, c18pre) && len(fn) > len(c18pre), "service object names resolve inside the bucket directory")
	vrt.Assert(fn == c18pre+name, "service object names resolve to their own path")
}

// VC18_overlap: writers that are open at the same time (concurrent uploads, a merge
// running while a chart is written) and writers that are closed twice (every handler
// defers Close and also closes explicitly): each object still holds exactly its own
// bytes.
func VC18_overlap() {
	vos.Reset()
	ctx := context.Background()
	b, err := NewFSBucket(ctx, c18dir, c18bkt)
	vrt.Assert(err == nil, "bucket is created")
	if err != nil {
		return
	}
	// an earlier object whose writer is closed twice, the way the handlers do
	if vrt.Bool() {
		w, err := b.Object("w/0").NewWriter(ctx)
		vrt.Assert(err == nil, "writer opens")
		if err != nil {
			return
		}
		w.Write([]byte("warm"))
		vrt.Assert(w.Close() == nil, "close succeeds")
		w.Close() // second close: an error at most
	}
	ca, cb := vrt.Bytes(1+vrt.Choose(2)), vrt.Bytes(1+vrt.Choose(2))
	wa, err := b.Object("x/a").NewWriter(ctx)
	vrt.Assert(err == nil, "writer opens")
	if err != nil {
		return
	}
	wb, err := b.Object("x/b").NewWriter(ctx)
	vrt.Assert(err == nil, "second writer opens while the first is open")
	if err != nil {
		return
	}
	if vrt.Bool() {
		wa.Write(ca)
		wb.Write(cb)
	} else {
		wb.Write(cb)
		wa.Write(ca)
	}
	if vrt.Bool() {
		vrt.Assert(wa.Close() == nil && wb.Close() == nil, "close succeeds")
	} else {
		vrt.Assert(wb.Close() == nil && wa.Close() == nil, "close succeeds")
	}
	got, err := c18read(b, "x/a")
	vrt.Assert(err == nil && string(got) == string(ca), "overlapping writers: the first object holds its own bytes")
	got, err = c18read(b, "x/b")
	vrt.Assert(err == nil && string(got) == string(cb), "overlapping writers: the second object holds its own bytes")
}
