package telemetry

// Harness for C16 (the telemetry sidecar starts only when permitted and never
// recursively): the full decision table of Start/MaybeChild.

import (
	"errors"
	"time"

	itelemetry "golang.org/x/telemetry/internal/telemetry"
	"golang.org/x/telemetry/internal/vrt"
	"golang.org/x/telemetry/internal/vrt/vcrash"
	"golang.org/x/telemetry/internal/vrt/vexec"
	"golang.org/x/telemetry/internal/vrt/vos"
	"golang.org/x/telemetry/internal/vrt/vupload"
)

const c16dir = "/t"

type c16in struct {
	marker, hasMarker   string
	markerSet           bool
	uploadVar           string
	uploadVarSet        bool
	rc, up              bool
	mode                string // spec mode
	statFails           bool
	tokenPresent, fresh bool
	debug               int // 0 absent, 1 dir, 2 file, 3 stat error
	exeFails, startFail bool
}

func c16mode() string {
	switch vrt.Choose(8) {
	case 5:
		// a date that does not parse leaves the mode word in force
		vos.AddFile(c16dir+"/mode", []byte([]string{"off 2024-1-5", "off  2024-01-05", "off 05/01/2024", "off x"}[vrt.Choose(4)]))
		return "off"
	case 6:
		// the last character of the date is arbitrary
		vos.AddFile(c16dir+"/mode", []byte("off 2024-01-0"+vrt.String(1)))
		return "off"
	case 7:
		vos.AddFile(c16dir+"/mode", []byte("on 2024-1-5"))
		return "on"
	case 0:
		return "local" // no mode file
	case 1:
		vos.AddFile(c16dir+"/mode", []byte("on"))
		return "on"
	case 2:
		vos.AddFile(c16dir+"/mode", []byte("off"))
		return "off"
	case 3:
		vos.AddFile(c16dir+"/mode", []byte("off 2024-01-01"))
		return "off"
	}
	vos.AddFile(c16dir+"/mode", []byte("local 2024-01-01"))
	return "local"
}

func c16setup() *c16in {
	vos.Reset()
	vexec.Reset()
	vcrash.Reset()
	vupload.Reset()
	in := &c16in{}
	vos.AddDir(c16dir)
	// the week-end setting exists (a missing one is chosen at random, which makes the
	// counter file's end date symbolic; week boundaries are C09)
	vos.AddDir(c16dir + "/local")
	vos.AddFile(c16dir+"/local/weekends", []byte("2\n"))
	in.mode = c16mode()
	// child marker
	switch vrt.Choose(4) {
	case 0:
	case 1:
		in.marker, in.markerSet = "1", true
	case 2:
		in.marker, in.markerSet = "2", true
	case 3:
		in.marker, in.markerSet = vrt.String(1+vrt.Choose(2)), true
	}
	if in.markerSet {
		vos.Env = append(vos.Env, [2]string{telemetryChildVar, in.marker})
	}
	// the upload request variable is set by a parent for its child only: it is part of the
	// input space for marked processes (a process without the child marker that inherits
	// it from a user's shell is outside the property's table)
	if in.markerSet && in.marker != "" {
		switch vrt.Choose(3) {
		case 1:
			in.uploadVar, in.uploadVarSet = "1", true
		case 2:
			in.uploadVar, in.uploadVarSet = vrt.String(vrt.Choose(3)), true
		}
	}
	if in.uploadVarSet {
		vos.Env = append(vos.Env, [2]string{telemetryUploadVar, in.uploadVar})
	}
	in.rc, in.up = vrt.Bool(), vrt.Bool()
	// upload token
	if vrt.Bool() {
		in.tokenPresent = true
		vos.AddDir(c16dir + "/local")
		n := vos.AddFile(c16dir+"/local/upload.token", nil)
		age := int64(vrt.U32() % (3 * 86400)) // seconds, up to three days
		n.MTime = time.Unix(vrt.NowSec-age, 0)
		in.fresh = age < 86400
	}
	switch in.debug = vrt.Choose(3); in.debug {
	case 1:
		vos.AddDir(c16dir + "/debug")
	case 2:
		vos.AddFile(c16dir+"/debug", []byte("x"))
	}
	if vrt.Bool() {
		in.exeFails = true
		vos.ExeErr = errors.New("no executable")
	}
	if vrt.Bool() {
		in.startFail = true
		vexec.StartErr = errors.New("fork failed")
	}
	return in
}

func c16mutations() int {
	n := 0
	for _, ev := range vos.Events {
		switch ev.Op {
		case "create", "write", "remove", "mkdir", "truncate", "rename", "setenv", "exec", "upload.Run", "crashmonitor.Parent", "crashmonitor.Child":
			n++
		}
	}
	return n
}

// VC16_table: Start under every combination of marker, flags, mode, token and failures.
func VC16_table() {
	in := c16setup()
	cfg := Config{ReportCrashes: in.rc, Upload: in.up, TelemetryDir: c16dir, UploadURL: "http://u"}
	exited := -1
	vos.ExitHook = func(code int) {
		exited = code
		c16check(in, exited)
	}
	vos.Events = nil
	if vrt.Bool() {
		Start(cfg)
	} else {
		// MaybeChild first, as programs that cannot call Start immediately do
		MaybeChild(cfg)
		Start(cfg)
	}
	c16check(in, exited)
}

func c16check(in *c16in, exited int) {
	launches := len(vexec.Launches)
	switch {
	case !in.markerSet || in.marker == "":
		// the application itself
		vrt.Assert(exited == -1, "parent: Start returns")
		vrt.Assert(vupload.Runs == nil && vcrash.ChildCalls == 0, "parent: never runs the sidecar's work itself")
		if in.mode == "off" {
			vrt.Assert(launches == 0, "mode off: nothing is launched")
			vrt.Assert(c16mutations() == 0, "mode off: nothing is written")
			return
		}
		acquired := in.up && (!in.tokenPresent || !in.fresh)
		want := (in.rc || acquired) && !in.exeFails && !in.startFail && in.debug != 3
		vrt.Assert(launches <= 1, "parent: at most one sidecar")
		if launches == 1 {
			vrt.Assert(in.rc || acquired, "a sidecar is launched only for crash reporting or an acquired upload token")
			c := vexec.Launches[0]
			v, ok := c.EnvValue(telemetryChildVar)
			vrt.Assert(ok && v == "1", "the sidecar is marked as telemetry child")
			uv, uok := c.EnvValue(telemetryUploadVar)
			vrt.Assert((uok && uv == "1") == acquired, "the sidecar is told to upload exactly when the token was acquired")
			vrt.Assert(c.Path == vos.Exe, "the sidecar is the same executable")
			vrt.Assert((vcrash.ParentCalls == 1) == in.rc, "crash monitoring is armed exactly when requested")
		}
		vrt.Assert((launches == 1) == want, "a sidecar is launched exactly when permitted and possible")
		if in.up && in.tokenPresent && in.fresh {
			n := vos.Lookup(c16dir + "/local/upload.token")
			vrt.Assert(n != nil, "a fresh token is left alone")
		}
	case in.marker == "1":
		vrt.Assert(launches == 0, "a telemetry child never launches another")
		vrt.Assert(exited == 0, "the child exits when done")
		first := ""
		for _, ev := range vos.Events {
			if ev.Op == "setenv" || ev.Op == "create" || ev.Op == "write" || ev.Op == "mkdir" || ev.Op == "upload.Run" || ev.Op == "crashmonitor.Child" || ev.Op == "exec" {
				first = ev.Op + ":" + ev.Path + "=" + string(ev.Data)
				break
			}
		}
		vrt.Assert(first == "setenv:"+telemetryChildVar+"=2", "the child marks its descendants before doing anything else")
		vrt.Assert(vos.Getenv(telemetryChildVar) == "2", "descendants of the child see marker 2")
		vrt.Assert((len(vupload.Runs) == 1) == (in.uploadVarSet && in.uploadVar == "1") && len(vupload.Runs) <= 1, "the child uploads exactly when told to")
		vrt.Assert((vcrash.ChildCalls == 1) == in.rc, "the child monitors crashes exactly when requested")
	case in.marker == "2":
		vrt.Assert(launches == 0 && exited == -1, "a descendant of a child does nothing")
		vrt.Assert(c16mutations() == 0, "a descendant of a child writes nothing")
	default:
		vrt.Assert(launches == 0, "an unexpected marker launches nothing")
		vrt.Assert(exited == 1, "an unexpected marker stops the process")
	}
}

// VC16_race: concurrent starters racing for the upload token. With no stale token
// present, at most one of them acquires it, for every interleaving of their file-system
// calls within the preemption bound; with the token absent exactly one does.
func VC16_race() {
	vos.Reset()
	vrt.ResetThreads()
	vos.Clock = time.Now // files created during the race carry the current time
	telemetryDirForRace()
	n := vrt.Param("starters", 2)
	fresh := vrt.Bool()
	if fresh {
		nd := vos.AddFile(c16dir+"/local/upload.token", nil)
		age := int64(vrt.U32() % 86400) // younger than the period
		nd.MTime = time.Unix(vrt.NowSec-age, 0)
	}
	got := make([]bool, n)
	for i := 0; i < n; i++ {
		k := i
		vrt.Go(func() { got[k] = acquireUploadToken() })
	}
	vrt.MaxPreempt = vrt.Param("preempt", 2)
	vrt.RunThreads()
	vrt.Assert(!vrt.Deadlock, "starters do not block each other")
	acquired := 0
	for _, g := range got {
		if g {
			acquired++
		}
	}
	vrt.Assert(acquired <= 1, "with no stale token, racing starters acquire the upload token at most once between them")
	if fresh {
		vrt.Assert(acquired == 0, "a fresh token is not acquired again")
	} else {
		vrt.Assert(acquired == 1, "with no token, exactly one starter acquires it")
	}
}

func telemetryDirForRace() {
	itelemetry.Default = itelemetry.NewDir(c16dir)
	vos.AddDir(c16dir + "/local")
}
