// Package vconfigstore stands in for internal/configstore in internal/upload (import
// substitution): Download returns the configuration the harness installed instead of
// running `go mod download`.
package vconfigstore

import (
	"errors"

	"golang.org/x/telemetry/internal/telemetry"
)

const (
	ModulePath     = "golang.org/x/telemetry/config"
	ConfigFileName = "config.json"
)

var (
	Config  *telemetry.UploadConfig // what Download returns (nil: an empty configuration)
	Version = "v1.2.3"
	Fails   bool
	Calls   int
)

func Reset() { Config, Version, Fails, Calls = nil, "v1.2.3", false, 0 }

func Download(version string, envOverlay []string) (*telemetry.UploadConfig, string, error) {
	Calls++
	if Fails {
		return nil, "", errors.New("download failed")
	}
	if Config == nil {
		return &telemetry.UploadConfig{}, Version, nil
	}
	return Config, Version, nil
}
