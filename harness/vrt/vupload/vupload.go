// Package vupload stands in for internal/upload in start.go (the uploader's behaviour is
// C01/C02/C07/C08): Run is recorded.
package vupload

import (
	"io"
	"time"

	"golang.org/x/telemetry/internal/vrt/vos"
)

type RunConfig struct {
	TelemetryDir string
	UploadURL    string
	LogWriter    io.Writer
	Env          []string
	StartTime    time.Time
}

var Runs []RunConfig

func Reset() { Runs = nil }

func Run(c RunConfig) error {
	Runs = append(Runs, c)
	vos.Note("upload.Run", c.UploadURL)
	return nil
}
