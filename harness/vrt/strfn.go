package vrt

import "sync"

// Pure-Go reference bodies for library functions that bottom out in assembly or
// reflection. The engine redirects calls to them (see defaultRedirects); natively the
// real library functions run.

func IndexByte(b []byte, c byte) int {
	for i := 0; i < len(b); i++ {
		if b[i] == c {
			return i
		}
	}
	return -1
}

func IndexByteString(s string, c byte) int {
	for i := 0; i < len(s); i++ {
		if s[i] == c {
			return i
		}
	}
	return -1
}

func LastIndexByte(b []byte, c byte) int {
	for i := len(b) - 1; i >= 0; i-- {
		if b[i] == c {
			return i
		}
	}
	return -1
}

func LastIndexByteString(s string, c byte) int {
	for i := len(s) - 1; i >= 0; i-- {
		if s[i] == c {
			return i
		}
	}
	return -1
}

func Count(b []byte, c byte) int {
	n := 0
	for i := 0; i < len(b); i++ {
		if b[i] == c {
			n++
		}
	}
	return n
}

func CountString(s string, c byte) int {
	n := 0
	for i := 0; i < len(s); i++ {
		if s[i] == c {
			n++
		}
	}
	return n
}

func CountStr(s, sep string) int {
	if len(sep) == 0 {
		n := 0
		for range s {
			n++
		}
		return n + 1
	}
	n := 0
	for {
		i := IndexString(s, sep)
		if i == -1 {
			return n
		}
		n++
		s = s[i+len(sep):]
	}
}

func Index(a, b []byte) int {
	n := len(b)
	for i := 0; i+n <= len(a); i++ {
		if string(a[i:i+n]) == string(b) {
			return i
		}
	}
	return -1
}

func IndexString(a, b string) int {
	n := len(b)
	for i := 0; i+n <= len(a); i++ {
		if a[i:i+n] == b {
			return i
		}
	}
	return -1
}

func LastIndexString(a, b string) int {
	n := len(b)
	for i := len(a) - n; i >= 0; i-- {
		if a[i:i+n] == b {
			return i
		}
	}
	return -1
}

func BytesEqual(a, b []byte) bool { return string(a) == string(b) }

func BytesCompare(a, b []byte) int {
	sa, sb := string(a), string(b)
	if sa < sb {
		return -1
	}
	if sa > sb {
		return 1
	}
	return 0
}

func Join(elems []string, sep string) string {
	r := ""
	for i, e := range elems {
		if i > 0 {
			r += sep
		}
		r += e
	}
	return r
}

func Repeat(s string, n int) string {
	if n < 0 {
		panic("strings: negative Repeat count")
	}
	r := ""
	for i := 0; i < n; i++ {
		r += s
	}
	return r
}

// isSpaceByte: ASCII white space per unicode.IsSpace; bytes >= 0x80 are handled by the
// caller's assumption (TrimSpace models below treat U+0085 and U+00A0 when they appear as
// valid 2-byte sequences).
func isSpaceByte(c byte) bool {
	return c == ' ' || c == '\t' || c == '\n' || c == '\v' || c == '\f' || c == '\r'
}

// TrimSpaceString models strings.TrimSpace for strings whose non-ASCII content is not
// white space; inputs containing the UTF-8 encodings of Unicode spaces at either end are
// outside the model (the harness alphabet is ASCII plus arbitrary bytes that are not
// part of such an encoding; bytes 0x85/0xA0 alone are invalid UTF-8, hence not space).
func TrimSpaceString(s string) string {
	i, j := 0, len(s)
	for i < j && isSpaceByte(s[i]) {
		i++
	}
	for j > i && isSpaceByte(s[j-1]) {
		j--
	}
	return s[i:j]
}

func TrimSpaceBytes(s []byte) []byte {
	i, j := 0, len(s)
	for i < j && isSpaceByte(s[i]) {
		i++
	}
	for j > i && isSpaceByte(s[j-1]) {
		j--
	}
	if i == j {
		return nil
	}
	return s[i:j]
}

// SortSlice models sort.Slice with an insertion sort over a generic swapper supplied by the
// engine (x is any slice); natively it is never called.
func SortSlice(x any, less func(i, j int) bool) {
	n := SliceLen(x)
	for i := 1; i < n; i++ {
		for j := i; j > 0 && less(j, j-1); j-- {
			SliceSwap(x, j, j-1)
		}
	}
}

// SliceLen / SliceSwap are engine intrinsics.
func SliceLen(x any) int        { panic("symbolic only") }
func SliceSwap(x any, i, j int) { panic("symbolic only") }

func SortStrings(x []string) {
	for i := 1; i < len(x); i++ {
		for j := i; j > 0 && x[j] < x[j-1]; j-- {
			x[j], x[j-1] = x[j-1], x[j]
		}
	}
}

// ---- fmt.Sscanf models (fmt/scan.go: advance, SkipSpace, scanInt, scanUint), for the two
// formats the code under test uses. Input is read as UTF-8 runes; "space" is fmt's
// isSpace (Unicode White_Space); a newline is never skipped by a verb. ----

// scanSpaceAt returns the byte length of the space rune at s[i] (0: not a space). A
// newline counts as a space of length 1; callers that must not skip it check first.
func scanSpaceAt(s string, i int) int {
	c := s[i]
	switch c {
	case '\t', '\n', '\v', '\f', '\r', ' ':
		return 1
	case 0xC2:
		if i+1 < len(s) && (s[i+1] == 0x85 || s[i+1] == 0xA0) {
			return 2
		}
	case 0xE1:
		if i+2 < len(s) && s[i+1] == 0x9A && s[i+2] == 0x80 {
			return 3
		}
	case 0xE2:
		if i+2 < len(s) {
			d, e := s[i+1], s[i+2]
			if d == 0x80 && (e >= 0x80 && e <= 0x8A || e == 0xA8 || e == 0xA9 || e == 0xAF) {
				return 3
			}
			if d == 0x81 && e == 0x9F {
				return 3
			}
		}
	case 0xE3:
		if i+2 < len(s) && s[i+1] == 0x80 && s[i+2] == 0x80 {
			return 3
		}
	}
	return 0
}

// scanSkipSpace models ss.SkipSpace for Sscanf: spaces are skipped, a newline is an error.
func scanSkipSpace(s string, i int) (int, bool) {
	for i < len(s) {
		if s[i] == '\n' {
			return i, false
		}
		n := scanSpaceAt(s, i)
		if n == 0 {
			break
		}
		i += n
	}
	return i, true
}

var (
	errScan    = &StrError{S: "input does not match format"}
	errScanEOF = &StrError{S: "unexpected EOF"}
	errScanNL  = &StrError{S: "unexpected newline"}
	errScanInt = &StrError{S: "expected integer"}
	errScanOvf = &StrError{S: "value out of range"}
)

// ScanSentinel models fmt.Sscanf(line, "sentinel %x", &v) with v a *uint64.
func ScanSentinel(line string, dst *uint64) (int, error) {
	const lit = "sentinel"
	i := 0
	for ; i < len(lit); i++ {
		if i >= len(line) {
			return 0, errScanEOF
		}
		if line[i] != lit[i] {
			return 0, errScan
		}
	}
	// the space of the format: one or more spaces, or end of input; not a newline
	if i < len(line) {
		if line[i] == '\n' {
			return 0, &StrError{S: "newline in input does not match format"}
		}
		if scanSpaceAt(line, i) == 0 {
			return 0, &StrError{S: "expected space in input to match format"}
		}
		for i < len(line) && line[i] != '\n' {
			n := scanSpaceAt(line, i)
			if n == 0 {
				break
			}
			i += n
		}
	}
	var ok bool
	if i, ok = scanSkipSpace(line, i); !ok {
		return 0, errScanNL
	}
	if i >= len(line) {
		return 0, errScanEOF
	}
	start := i
	var v uint64
	for i < len(line) {
		c := line[i]
		var d uint64
		switch {
		case c >= '0' && c <= '9':
			d = uint64(c - '0')
		case c >= 'a' && c <= 'f':
			d = uint64(c-'a') + 10
		case c >= 'A' && c <= 'F':
			d = uint64(c-'A') + 10
		default:
			goto done
		}
		if v>>60 != 0 {
			// keep consuming digits: the whole token is parsed, then found out of range
			for i < len(line) && (line[i] >= '0' && line[i] <= '9' || line[i] >= 'a' && line[i] <= 'f' || line[i] >= 'A' && line[i] <= 'F') {
				i++
			}
			return 0, errScanOvf
		}
		v = v<<4 | d
		i++
	}
done:
	if i == start {
		return 0, errScanInt
	}
	*dst = v
	return 1, nil
}

// DateREFind models (*regexp.Regexp).FindStringSubmatch for the pattern
// `(\d\d\d\d-\d\d-\d\d)[.]json$` (the only regexp in internal/upload): the pattern has a
// fixed length of 15 and is anchored at the end, so the only candidate is the suffix.
func DateREFind(s string) []string {
	if len(s) < 15 {
		return nil
	}
	t := s[len(s)-15:]
	d := func(c byte) bool { return c >= '0' && c <= '9' }
	ok := d(t[0]) && d(t[1]) && d(t[2]) && d(t[3]) && t[4] == '-' && d(t[5]) && d(t[6]) && t[7] == '-' && d(t[8]) && d(t[9]) && t[10:] == ".json"
	if !ok {
		return nil
	}
	return []string{t, t[:10]}
}

// EscapeString models html.EscapeString (the five characters < > & ' " are replaced).
func EscapeString(s string) string {
	out := make([]byte, 0, len(s))
	for i := 0; i < len(s); i++ {
		switch s[i] {
		case '<':
			out = append(out, "&lt;"...)
		case '>':
			out = append(out, "&gt;"...)
		case '&':
			out = append(out, "&amp;"...)
		case '\'':
			out = append(out, "&#39;"...)
		case '"':
			out = append(out, "&#34;"...)
		default:
			out = append(out, s[i])
		}
	}
	return string(out)
}

// GoVersionREFind models (*regexp.Regexp).FindStringSubmatch for the pattern
// `^-(go.+)\.[^.]+-[^.]+$` used by configgen.goVersions: the text after the last dot has
// the form A-B (both non-empty; it cannot contain a dot), the text before it is "-go"
// followed by at least one character.
func GoVersionREFind(s string) []string {
	p := -1
	for i := len(s) - 1; i >= 0; i-- {
		if s[i] == '.' {
			p = i
			break
		}
	}
	if p < 4 || s[0] != '-' || s[1] != 'g' || s[2] != 'o' {
		return nil
	}
	tail := s[p+1:]
	ok := false
	for i := 1; i+1 < len(tail); i++ {
		if tail[i] == '-' {
			ok = true
		}
	}
	if !ok {
		return nil
	}
	return []string{s, s[1:p]}
}

// ScanSemver models fmt.Sscanf(s, "v%d.%d.%d", &a, &b, &c) with *int operands: each %d
// skips spaces (not newlines), takes an optional sign and at least one decimal digit;
// the literals must match exactly; text after the third number is ignored.
func ScanSemver(s string, a, b, c *int) (int, error) {
	i := 0
	n := 0
	for k, dst := range []*int{a, b, c} {
		lit := byte('.')
		if k == 0 {
			lit = 'v'
		}
		if i >= len(s) {
			return n, errScanEOF
		}
		if s[i] != lit {
			return n, errScan
		}
		i++
		var ok bool
		if i, ok = scanSkipSpace(s, i); !ok {
			return n, errScanNL
		}
		if i >= len(s) {
			return n, errScanEOF
		}
		neg := false
		if s[i] == '+' || s[i] == '-' {
			neg = s[i] == '-'
			i++
		}
		if i >= len(s) {
			return n, errScanEOF
		}
		start := i
		var v uint64
		ovf := false
		for i < len(s) && s[i] >= '0' && s[i] <= '9' {
			d := uint64(s[i] - '0')
			if v > (1<<63)/10 || v*10+d > 1<<63 {
				ovf = true
			} else {
				v = v*10 + d
			}
			i++
		}
		if i == start {
			return n, errScanInt
		}
		if ovf || (!neg && v == 1<<63) {
			return n, errScanOvf
		}
		if neg {
			*dst = int(-int64(v))
		} else {
			*dst = int(v)
		}
		n++
	}
	return n, nil
}

// SortInterface models sort.Sort / sort.Stable with an insertion sort.
func SortInterface(data interface {
	Len() int
	Less(i, j int) bool
	Swap(i, j int)
}) {
	n := data.Len()
	for i := 1; i < n; i++ {
		for j := i; j > 0 && data.Less(j, j-1); j-- {
			data.Swap(j, j-1)
		}
	}
}

// IsSpaceRune models unicode.IsSpace (the White_Space property).
func IsSpaceRune(r rune) bool {
	switch r {
	case '\t', '\n', '\v', '\f', '\r', ' ', 0x85, 0xA0, 0x1680, 0x2028, 0x2029, 0x202f, 0x205f, 0x3000:
		return true
	}
	return r >= 0x2000 && r <= 0x200a
}

// ---- sync.Pool model (engine redirect of (*sync.Pool).Get / Put) ----
// A pool is a LIFO list per pool: Get returns the most recently Put value, or New().
// That is one of the behaviours the real pool allows (and what it does on one goroutine
// without an intervening GC), so anything that goes wrong under this model can go wrong
// for real.

var poolItems = map[*sync.Pool][]any{}

func PoolGet(p *sync.Pool) any {
	l := poolItems[p]
	if n := len(l); n > 0 {
		x := l[n-1]
		poolItems[p] = l[:n-1]
		return x
	}
	if p.New != nil {
		return p.New()
	}
	return nil
}

func PoolPut(p *sync.Pool, x any) {
	if x == nil {
		return
	}
	poolItems[p] = append(poolItems[p], x)
}

func CompareString(a, b string) int {
	if a < b {
		return -1
	}
	if a > b {
		return 1
	}
	return 0
}

// ---- unicode predicates for Latin-1 (the unicode package's tables are not initialised
// under the engine); beyond Latin-1 the path is reported as unsupported ----

func latin1Letter(r rune) (letter, upper, lower bool) {
	switch {
	case 'A' <= r && r <= 'Z':
		return true, true, false
	case 'a' <= r && r <= 'z':
		return true, false, true
	case r == 0xAA || r == 0xBA:
		return true, false, false
	case r == 0xB5:
		return true, false, true
	case 0xC0 <= r && r <= 0xDE && r != 0xD7:
		return true, true, false
	case 0xDF <= r && r <= 0xFF && r != 0xF7:
		return true, false, true
	}
	return false, false, false
}

func IsLetterRune(r rune) bool {
	if uint32(r) > 0xFF {
		Unsupported("unicode.IsLetter beyond Latin-1")
	}
	l, _, _ := latin1Letter(r)
	return l
}

func IsUpperRune(r rune) bool {
	if uint32(r) > 0xFF {
		Unsupported("unicode.IsUpper beyond Latin-1")
	}
	_, u, _ := latin1Letter(r)
	return u
}

func IsLowerRune(r rune) bool {
	if uint32(r) > 0xFF {
		Unsupported("unicode.IsLower beyond Latin-1")
	}
	_, _, l := latin1Letter(r)
	return l
}
