package vrt

// Cooperative threads for the concurrency properties. The scheduling policy below is
// ordinary Go: the engine interprets it and native replay compiles it, so both make the
// same decisions; only the two coroutine primitives differ (engine: intrinsics; natively:
// goroutines handing a baton over channels). A thread runs until it reaches a yield point
// (vrt.Yield, called by the vos/vhttp shims at the start of every call and by the
// instrumented copies of the code under test before atomic operations); at a yield point
// the scheduler either lets it continue or - while the preemption budget lasts - switches to
// another runnable thread, the choice being a nondeterministic decision of the harness.

import "sync"

type thr struct {
	id     int
	done   bool
	waitMu *sync.Mutex
}

var (
	thrs       []*thr
	curThr     *thr
	preempts   int
	MaxPreempt = 2
	Steps      int // yields seen (evidence)
	held       = map[*sync.Mutex]bool{}
	Deadlock   bool
)

// ResetThreads forgets all threads (start of a harness entry).
func ResetThreads() {
	thrs, curThr, preempts, Steps, Deadlock = nil, nil, 0, 0, false
	YieldHook = nil
	SyncHook = nil
	held = map[*sync.Mutex]bool{}
}

// Go registers f as a thread; it starts running inside RunThreads.
func Go(f func()) {
	t := &thr{}
	t.id = coCreate(func() {
		f()
		t.done = true
		coSwitch(0)
	})
	thrs = append(thrs, t)
}

func runnable() []*thr {
	var en []*thr
	for _, t := range thrs {
		if !t.done && (t.waitMu == nil || !held[t.waitMu]) {
			en = append(en, t)
		}
	}
	return en
}

// RunThreads runs the registered threads to completion (or deadlock) under the
// preemption-bounded scheduler.
func RunThreads() {
	var last *thr
	for {
		en := runnable()
		if len(en) == 0 {
			for _, t := range thrs {
				if !t.done {
					Deadlock = true
				}
			}
			break
		}
		var next *thr
		lastRunnable := false
		for _, t := range en {
			if t == last {
				lastRunnable = true
			}
		}
		switch {
		case len(en) == 1:
			next = en[0]
		case lastRunnable && preempts >= MaxPreempt:
			next = last
		default:
			next = en[Choose(len(en))]
			if lastRunnable && next != last {
				preempts++
			}
		}
		last = next
		curThr = next
		coSwitch(next.id)
		curThr = nil
	}
	if SyncHook != nil {
		SyncHook()
	}
}

// ThreadID identifies the running harness thread (0: not inside RunThreads).
func ThreadID() int {
	if curThr == nil {
		return 0
	}
	return curThr.id
}

// Yield is a scheduling point. Outside RunThreads it does nothing.
func Yield() {
	if curThr == nil {
		return
	}
	Steps++
	if YieldHook != nil {
		YieldHook()
	}
	if SyncHook != nil {
		SyncHook()
	}
	coSwitch(0)
	if SyncHook != nil {
		SyncHook()
	}
}

// SyncHook, when set (native replay with real unmapping only), runs on both sides of
// every scheduling point: the mmap model uses it to keep separate views of one file coherent.
var SyncHook func()

// YieldHook, when set, runs at every scheduling point of a thread before control goes
// back to the scheduler (harnesses use it to kill a "process" at an arbitrary step).
var YieldHook func()

// Y is a scheduling point in expression position: it yields and returns its argument.
func Y[T any](p T) T {
	Yield()
	return p
}

// Lock/Unlock replace sync.Mutex.Lock/Unlock in instrumented code: threads are
// cooperative, so mutual exclusion is kept in a table and a thread that finds the mutex
// held parks until it is released.
func Lock(m *sync.Mutex) {
	Yield()
	for held[m] {
		if curThr == nil {
			panic("vrt.Lock: mutex held with no other thread to release it")
		}
		curThr.waitMu = m
		t := curThr
		coSwitch(0)
		t.waitMu = nil
	}
	held[m] = true
}

// LockQ is Lock without a scheduling point of its own (mutex-only instrumentation): a
// free mutex is taken at once; a held one parks the thread until it is released.
func LockQ(m *sync.Mutex) {
	for held[m] {
		if curThr == nil {
			panic("vrt.Lock: mutex held with no other thread to release it")
		}
		curThr.waitMu = m
		t := curThr
		coSwitch(0)
		t.waitMu = nil
	}
	held[m] = true
}

func Unlock(m *sync.Mutex) {
	if !held[m] {
		panic("sync: unlock of unlocked mutex")
	}
	delete(held, m)
}

// ---- coroutine primitives (native versions; the engine intercepts both by name) ----

type coro struct {
	ch      chan struct{}
	started bool
	f       func()
}

var (
	coros  []*coro
	coSelf int
)

func coCreate(f func()) int {
	if len(coros) == 0 {
		coros = append(coros, &coro{ch: make(chan struct{}), started: true}) // 0: the main coroutine
	}
	coros = append(coros, &coro{ch: make(chan struct{}), f: f})
	return len(coros) - 1
}

func coSwitch(id int) {
	self := coSelf
	coSelf = id
	c := coros[id]
	if !c.started {
		c.started = true
		go func() {
			c.f()
		}()
	} else {
		c.ch <- struct{}{}
	}
	<-coros[self].ch
}
