// Package vos is a small in-memory model of the parts of package os that
// golang/telemetry uses. The verification engine substitutes it for "os" in the packages
// under test (import substitution), both for symbolic execution and for native replay, so
// that file-system state, failures and the observable sequence of mutations are under
// the harness's control. It is ordinary Go: the engine interprets it like any other code.
//
// Model: a flat set of nodes keyed by path (callers pass clean paths built with
// filepath.Join); a node is a directory or a file with a byte content that is shared
// with memory mappings (MAP_SHARED semantics). Every mutating call is appended to
// Events. FailHook, when set, is consulted at the start of every call and may inject an
// error.
package vos

import (
	"errors"
	"io"
	"io/fs"
	"time"

	"golang.org/x/telemetry/internal/vrt"
)

type (
	FileMode  = fs.FileMode
	FileInfo  = fs.FileInfo
	DirEntry  = fs.DirEntry
	PathError = fs.PathError
)

const (
	O_RDONLY = 0x0
	O_WRONLY = 0x1
	O_RDWR   = 0x2
	O_APPEND = 0x400
	O_CREATE = 0x40
	O_EXCL   = 0x80
	O_SYNC   = 0x101000
	O_TRUNC  = 0x200

	ModePerm = fs.ModePerm
	ModeDir  = fs.ModeDir

	PathSeparator = '/'
	DevNull       = "/dev/null"
)

var (
	ErrNotExist   = fs.ErrNotExist
	ErrExist      = fs.ErrExist
	ErrPermission = fs.ErrPermission
	ErrInvalid    = fs.ErrInvalid
	ErrClosed     = fs.ErrClosed
	ErrInjected   = errors.New("injected I/O error")
	ErrIsDir      = errors.New("is a directory")
	ErrNotDir     = errors.New("not a directory")
	ErrNotEmpty   = errors.New("directory not empty")
	ErrDead       = errors.New("process killed")
)

// Kill model: a "process" is the harness thread it runs on (thread 0: the sequential part
// of a harness). KillAt[id] = k makes the k-th file-system/HTTP call of that process the
// point where it dies: the call is not performed, Killed is raised, and every later call
// of the same process (its deferred clean-up, still unwinding) fails without effect.
// Killable runs f and reports whether it was killed.
type Killed struct{}

var (
	Dead   bool // sequential shorthand: process 0 is dead
	KillAt = map[int]int{}
	calls  = map[int]int{}
	dead   = map[int]bool{}
)

func Killable(f func()) (killed bool) {
	id := vrt.ThreadID()
	defer func() {
		if r := recover(); r != nil {
			if _, ok := r.(Killed); ok {
				killed = true
				return
			}
			panic(r)
		}
	}()
	calls[id] = 0
	f()
	return false
}

// KillNow kills the calling process at this very point (used from vrt.YieldHook, i.e. at
// any scheduling point, not only at file-system calls).
func KillNow() {
	dead[vrt.ThreadID()] = true
	panic(Killed{})
}

// Revive lets process id make calls again (a new process on the same thread).
func Revive(id int) { delete(dead, id); delete(KillAt, id); calls[id] = 0; Dead = false }

// Step is the common prologue of every modelled call (also used by the HTTP shim).
func Step(op, path string) error { return fail(op, path) }

// Node is a file or directory.
type Node struct {
	Name  string
	Dir   bool
	Data  []byte // file content; capacity is reserved up front so that growth never reallocates
	MTime time.Time
	Gone  bool // removed
}

// Event records one mutating call (for assertions about what was touched).
type Event struct {
	Op   string // create, write, remove, mkdir, truncate
	Path string
	Data []byte // content written (write/create), aliasing the caller's buffer snapshot
	Off  int64
}

const FileCap = 3 * 16 * 1024

var (
	Nodes    []*Node
	Events   []Event
	FailHook func(op, path string) error
	Clock    func() time.Time
	Env      [][2]string
	Args     = []string{"prog"}
	Exe      = "/bin/prog"
	ExeErr   error
	ConfigDir    = "/cfg"
	ConfigDirErr error
	Pid      = 4242
	NoEvents bool
)

// Reset clears the model (called by each harness entry).
func Reset() {
	Dead = false
	KillAt, calls, dead = map[int]int{}, map[int]int{}, map[int]bool{}
	Nodes = nil
	Events = nil
	FailHook = nil
	Clock = nil
	Env = nil
	Args = []string{"prog"}
	Exe = "/bin/prog"
	ExeErr = nil
	ConfigDir = "/cfg"
	ConfigDirErr = nil
	Nodes = append(Nodes, &Node{Name: "/", Dir: true})
}

func now() time.Time {
	if Clock != nil {
		return Clock()
	}
	return time.Time{}
}

func fail(op, path string) error {
	vrt.Yield() // every file-system call is a scheduling point for harness threads
	id := vrt.ThreadID()
	if Dead && id == 0 || dead[id] {
		return ErrDead
	}
	if k, ok := KillAt[id]; ok {
		calls[id]++
		if calls[id] == k {
			dead[id] = true
			panic(Killed{})
		}
	}
	if FailHook != nil {
		return FailHook(op, path)
	}
	return nil
}

func event(op, path string, data []byte, off int64) {
	if NoEvents {
		return
	}
	Events = append(Events, Event{Op: op, Path: path, Data: data, Off: off})
}

// Note records a non-file-system event in the same log (process launches, stub calls).
func Note(op, what string) { event(op, what, nil, 0) }

// NewPipe returns a write end that swallows what is written to it.
func NewPipe() *File { return &File{name: "|pipe", std: 2} }

// Lookup returns the live node for path, or nil.
func Lookup(path string) *Node {
	for _, n := range Nodes {
		if !n.Gone && n.Name == path {
			return n
		}
	}
	return nil
}

// parent returns the directory part of path (text before the last '/').
func parent(path string) string {
	for i := len(path) - 1; i > 0; i-- {
		if path[i] == '/' {
			return path[:i]
		}
	}
	return "/"
}

// AddDir / AddFile populate the model without events (harness set-up).
func AddDir(path string) *Node {
	if n := Lookup(path); n != nil {
		return n
	}
	if path != "/" {
		AddDir(parent(path))
	}
	n := &Node{Name: path, Dir: true}
	Nodes = append(Nodes, n)
	return n
}

func AddFile(path string, content []byte) *Node {
	n := &Node{Name: path, Data: make([]byte, len(content), capFor(len(content)))}
	copy(n.Data, content)
	Nodes = append(Nodes, n)
	return n
}

// AddFileShared installs a file whose content IS the given buffer (no copy).
func AddFileShared(path string, content []byte) *Node {
	n := &Node{Name: path, Data: content}
	Nodes = append(Nodes, n)
	return n
}

func capFor(n int) int {
	if n < FileCap {
		return FileCap
	}
	return n
}

func perr(op, path string, err error) error { return &PathError{Op: op, Path: path, Err: err} }

// ---- FileInfo / DirEntry ----

type fileInfo struct {
	name  string
	size  int64
	dir   bool
	mtime time.Time
}

func (fi *fileInfo) Name() string       { return base(fi.name) }
func (fi *fileInfo) Size() int64        { return fi.size }
func (fi *fileInfo) IsDir() bool        { return fi.dir }
func (fi *fileInfo) ModTime() time.Time { return fi.mtime }
func (fi *fileInfo) Sys() any           { return nil }
func (fi *fileInfo) Mode() FileMode {
	if fi.dir {
		return ModeDir | 0777
	}
	return 0666
}
func (fi *fileInfo) Type() FileMode          { return fi.Mode().Type() }
func (fi *fileInfo) Info() (FileInfo, error) { return fi, nil }

func base(p string) string {
	for i := len(p) - 1; i >= 0; i-- {
		if p[i] == '/' {
			return p[i+1:]
		}
	}
	return p
}

func infoOf(n *Node) *fileInfo {
	return &fileInfo{name: n.Name, size: int64(len(n.Data)), dir: n.Dir, mtime: n.MTime}
}

// ---- package-level functions ----

func Stat(name string) (FileInfo, error) {
	if err := fail("stat", name); err != nil {
		return nil, perr("stat", name, err)
	}
	n := Lookup(name)
	if n == nil {
		return nil, perr("stat", name, ErrNotExist)
	}
	return infoOf(n), nil
}

func Lstat(name string) (FileInfo, error) { return Stat(name) }

func ReadFile(name string) ([]byte, error) {
	if err := fail("readfile", name); err != nil {
		return nil, perr("open", name, err)
	}
	n := Lookup(name)
	if n == nil {
		return nil, perr("open", name, ErrNotExist)
	}
	if n.Dir {
		return nil, perr("read", name, ErrIsDir)
	}
	out := make([]byte, len(n.Data))
	copy(out, n.Data)
	return out, nil
}

func WriteFile(name string, data []byte, perm FileMode) error {
	f, err := OpenFile(name, O_WRONLY|O_CREATE|O_TRUNC, perm)
	if err != nil {
		return err
	}
	_, err = f.Write(data)
	if err1 := f.Close(); err1 != nil && err == nil {
		err = err1
	}
	return err
}

func MkdirAll(path string, perm FileMode) error {
	if err := fail("mkdirall", path); err != nil {
		return perr("mkdir", path, err)
	}
	if n := Lookup(path); n != nil {
		if n.Dir {
			return nil
		}
		return perr("mkdir", path, ErrNotDir)
	}
	if path != "/" {
		if err := MkdirAll(parent(path), perm); err != nil {
			return err
		}
	}
	Nodes = append(Nodes, &Node{Name: path, Dir: true, MTime: now()})
	event("mkdir", path, nil, 0)
	return nil
}

func Mkdir(path string, perm FileMode) error {
	if err := fail("mkdir", path); err != nil {
		return perr("mkdir", path, err)
	}
	if Lookup(path) != nil {
		return perr("mkdir", path, ErrExist)
	}
	if p := Lookup(parent(path)); p == nil || !p.Dir {
		return perr("mkdir", path, ErrNotExist)
	}
	Nodes = append(Nodes, &Node{Name: path, Dir: true, MTime: now()})
	event("mkdir", path, nil, 0)
	return nil
}

func hasChildren(dir string) bool {
	for _, n := range Nodes {
		if !n.Gone && n.Name != dir && parent(n.Name) == dir {
			return true
		}
	}
	return false
}

func Remove(name string) error {
	if err := fail("remove", name); err != nil {
		return perr("remove", name, err)
	}
	n := Lookup(name)
	if n == nil {
		return perr("remove", name, ErrNotExist)
	}
	if n.Dir && hasChildren(name) {
		return perr("remove", name, ErrNotEmpty)
	}
	n.Gone = true
	event("remove", name, nil, 0)
	return nil
}

func RemoveAll(path string) error {
	if err := fail("removeall", path); err != nil {
		return perr("removeall", path, err)
	}
	for _, n := range Nodes {
		if n.Gone {
			continue
		}
		if n.Name == path || (len(n.Name) > len(path) && n.Name[:len(path)] == path && n.Name[len(path)] == '/') {
			n.Gone = true
			event("remove", n.Name, nil, 0)
		}
	}
	return nil
}

func Rename(oldpath, newpath string) error {
	if err := fail("rename", oldpath); err != nil {
		return perr("rename", oldpath, err)
	}
	n := Lookup(oldpath)
	if n == nil {
		return perr("rename", oldpath, ErrNotExist)
	}
	if t := Lookup(newpath); t != nil {
		t.Gone = true
	}
	n.Name = newpath
	event("rename", newpath, nil, 0)
	return nil
}

type dirEntry struct{ fileInfo }

// ReadDir lists a directory sorted by file name, like os.ReadDir.
func ReadDir(name string) ([]DirEntry, error) {
	if err := fail("readdir", name); err != nil {
		return nil, perr("open", name, err)
	}
	d := Lookup(name)
	if d == nil {
		return nil, perr("open", name, ErrNotExist)
	}
	if !d.Dir {
		return nil, perr("readdirent", name, ErrNotDir)
	}
	var out []DirEntry
	for _, n := range Nodes {
		if n.Gone || n.Name == name || parent(n.Name) != name {
			continue
		}
		out = append(out, infoOf(n))
	}
	for i := 1; i < len(out); i++ {
		for j := i; j > 0 && out[j].Name() < out[j-1].Name(); j-- {
			out[j], out[j-1] = out[j-1], out[j]
		}
	}
	return out, nil
}

// Chmod, Chtimes, Chown: permissions and times are not modelled; the calls succeed on
// existing paths.
func Chmod(name string, mode FileMode) error {
	if err := fail("chmod", name); err != nil {
		return perr("chmod", name, err)
	}
	if Lookup(name) == nil {
		return perr("chmod", name, ErrNotExist)
	}
	return nil
}

func Chtimes(name string, atime, mtime time.Time) error {
	n := Lookup(name)
	if n == nil {
		return perr("chtimes", name, ErrNotExist)
	}
	n.MTime = mtime
	return nil
}

func (f *File) Chmod(mode FileMode) error { return nil }

// Link creates newname as another name of oldname's file (fails if newname exists).
func Link(oldname, newname string) error {
	if err := fail("link", newname); err != nil {
		return perr("link", newname, err)
	}
	n := Lookup(oldname)
	if n == nil {
		return perr("link", oldname, ErrNotExist)
	}
	if Lookup(newname) != nil {
		return perr("link", newname, ErrExist)
	}
	Nodes = append(Nodes, &Node{Name: newname, Data: n.Data, MTime: n.MTime})
	event("create", newname, nil, 0)
	return nil
}

func IsNotExist(err error) bool   { return errors.Is(err, ErrNotExist) }
func IsExist(err error) bool      { return errors.Is(err, ErrExist) }
func IsPermission(err error) bool { return errors.Is(err, ErrPermission) }

// ---- File ----

type File struct {
	node   *Node
	name   string
	flag   int
	pos    int64
	closed bool
	std    int // 1 stdin, 2 stdout, 3 stderr
}

var (
	Stdin     = &File{name: "/dev/stdin", std: 1}
	Stdout    = &File{name: "/dev/stdout", std: 2}
	Stderr    = &File{name: "/dev/stderr", std: 3}
	StdinData []byte
)

func OpenFile(name string, flag int, perm FileMode) (*File, error) {
	if err := fail("openfile", name); err != nil {
		return nil, perr("open", name, err)
	}
	n := Lookup(name)
	if n == nil {
		if flag&O_CREATE == 0 {
			return nil, perr("open", name, ErrNotExist)
		}
		if p := Lookup(parent(name)); p == nil || !p.Dir {
			return nil, perr("open", name, ErrNotExist)
		}
		n = &Node{Name: name, Data: make([]byte, 0, FileCap), MTime: now()}
		Nodes = append(Nodes, n)
		event("create", name, nil, 0)
	} else {
		if flag&O_CREATE != 0 && flag&O_EXCL != 0 {
			return nil, perr("open", name, ErrExist)
		}
		if n.Dir && flag&(O_WRONLY|O_RDWR) != 0 {
			return nil, perr("open", name, ErrIsDir)
		}
		if flag&O_TRUNC != 0 && !n.Dir && len(n.Data) > 0 {
			n.Data = n.Data[:0]
			event("truncate", name, nil, 0)
		}
	}
	return &File{node: n, name: name, flag: flag}, nil
}

func Open(name string) (*File, error)   { return OpenFile(name, O_RDONLY, 0) }
func Create(name string) (*File, error) { return OpenFile(name, O_RDWR|O_CREATE|O_TRUNC, 0666) }

func CreateTemp(dir, pattern string) (*File, error) {
	return OpenFile(dir+"/tmp"+pattern, O_RDWR|O_CREATE|O_EXCL, 0600)
}

func (f *File) Name() string { return f.name }

// Node exposes the underlying node (used by the mmap model).
func (f *File) Node() *Node { return f.node }

func (f *File) Stat() (FileInfo, error) {
	if f == nil || f.closed {
		return nil, perr("stat", "", ErrClosed)
	}
	if err := fail("fstat", f.name); err != nil {
		return nil, perr("stat", f.name, err)
	}
	return infoOf(f.node), nil
}

func (f *File) grow(n int) {
	if n > cap(f.node.Data) {
		nd := make([]byte, len(f.node.Data), n+FileCap)
		copy(nd, f.node.Data)
		f.node.Data = nd
	}
	f.node.Data = f.node.Data[:n]
}

func (f *File) WriteAt(b []byte, off int64) (int, error) {
	if f == nil || f.closed {
		return 0, perr("write", "", ErrClosed)
	}
	if err := fail("writeat", f.name); err != nil {
		return 0, perr("write", f.name, err)
	}
	if f.flag&(O_WRONLY|O_RDWR) == 0 {
		return 0, perr("write", f.name, ErrPermission)
	}
	end := int(off) + len(b)
	if end > len(f.node.Data) {
		f.grow(end)
	}
	copy(f.node.Data[off:], b)
	f.node.MTime = now()
	event("write", f.name, b, off)
	return len(b), nil
}

func (f *File) Write(b []byte) (int, error) {
	if f == nil || f.closed {
		return 0, perr("write", "", ErrClosed)
	}
	if f.std != 0 {
		if f.std == 3 && vrt.NativeTrace() {
			vrt.TraceWrite(b)
		}
		return len(b), nil
	}
	if err := fail("write", f.name); err != nil {
		return 0, perr("write", f.name, err)
	}
	if f.flag&(O_WRONLY|O_RDWR) == 0 {
		return 0, perr("write", f.name, ErrPermission)
	}
	if f.flag&O_APPEND != 0 {
		f.pos = int64(len(f.node.Data))
	}
	end := int(f.pos) + len(b)
	if end > len(f.node.Data) {
		f.grow(end)
	}
	copy(f.node.Data[f.pos:], b)
	event("write", f.name, b, f.pos)
	f.pos = int64(end)
	f.node.MTime = now()
	return len(b), nil
}

func (f *File) WriteString(s string) (int, error) { return f.Write([]byte(s)) }

func (f *File) Read(b []byte) (int, error) {
	if f == nil || f.closed {
		return 0, perr("read", "", ErrClosed)
	}
	var src []byte
	if f.std == 1 {
		src = StdinData
	} else if f.std != 0 {
		return 0, io.EOF
	} else {
		if err := fail("read", f.name); err != nil {
			return 0, perr("read", f.name, err)
		}
		src = f.node.Data
	}
	if int(f.pos) >= len(src) {
		return 0, io.EOF
	}
	n := copy(b, src[f.pos:])
	f.pos += int64(n)
	return n, nil
}

func (f *File) ReadAt(b []byte, off int64) (int, error) {
	if int(off) >= len(f.node.Data) {
		return 0, io.EOF
	}
	n := copy(b, f.node.Data[off:])
	if n < len(b) {
		return n, io.EOF
	}
	return n, nil
}

func (f *File) Close() error {
	if f == nil {
		return ErrInvalid
	}
	if f.closed {
		return perr("close", f.name, ErrClosed)
	}
	f.closed = true
	if f.std != 0 {
		return nil
	}
	if err := fail("close", f.name); err != nil {
		return perr("close", f.name, err)
	}
	return nil
}

func (f *File) Sync() error     { return nil }
func (f *File) Fd() uintptr     { return 3 }
func (f *File) Truncate(size int64) error {
	if err := fail("truncate", f.name); err != nil {
		return perr("truncate", f.name, err)
	}
	if int(size) <= len(f.node.Data) {
		f.node.Data = f.node.Data[:size]
	} else {
		f.grow(int(size))
	}
	event("truncate", f.name, nil, size)
	return nil
}

// ---- process environment ----

func Getenv(key string) string {
	for _, kv := range Env {
		if kv[0] == key {
			return kv[1]
		}
	}
	return ""
}

func LookupEnv(key string) (string, bool) {
	for _, kv := range Env {
		if kv[0] == key {
			return kv[1], true
		}
	}
	return "", false
}

func Setenv(key, value string) error {
	event("setenv", key, []byte(value), 0)
	for i := range Env {
		if Env[i][0] == key {
			Env[i][1] = value
			return nil
		}
	}
	Env = append(Env, [2]string{key, value})
	return nil
}

func Environ() []string {
	var out []string
	for _, kv := range Env {
		out = append(out, kv[0]+"="+kv[1])
	}
	return out
}

func Executable() (string, error)    { return Exe, ExeErr }
func Getpid() int                    { return Pid }
func UserConfigDir() (string, error) { return ConfigDir, ConfigDirErr }
func TempDir() string                { return "/tmp" }
func Hostname() (string, error)      { return "host", nil }

// ExitCode records a call to Exit; the engine ends the path, natively Exit panics.
type ExitPanic struct{ Code int }

var Exited = -1

// ExitHook, when set, runs before the process "exits" (final assertions of a harness).
var ExitHook func(code int)

func Exit(code int) {
	Exited = code
	event("exit", "", nil, int64(code))
	if ExitHook != nil {
		ExitHook(code)
	}
	vrt.Stop() // engine: ends the path without running deferred calls, like os.Exit
}

// DirFS supports fs.WalkDir(os.DirFS(dir), ".", fn) as used by the storage package.
type dirFS string

func DirFS(dir string) fs.FS { return dirFS(dir) }

func (d dirFS) Open(name string) (fs.File, error) {
	return nil, perr("open", name, ErrInvalid)
}

func (d dirFS) full(name string) string {
	if name == "." {
		return string(d)
	}
	return string(d) + "/" + name
}

func (d dirFS) ReadDir(name string) ([]DirEntry, error) { return ReadDir(d.full(name)) }

func (d dirFS) Stat(name string) (FileInfo, error) { return Stat(d.full(name)) }
