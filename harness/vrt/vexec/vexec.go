// Package vexec stands in for os/exec in start.go: commands are never run, every Start
// is recorded as a launch event together with the environment the child would get.
package vexec

import (
	"io"
	"syscall"

	"golang.org/x/telemetry/internal/vrt/vos"
)

type Cmd struct {
	Path        string
	Args        []string
	Env         []string
	Dir         string
	Stdin       io.Reader
	Stdout      io.Writer
	Stderr      io.Writer
	SysProcAttr *syscall.SysProcAttr
	Started     bool
	pipe        *vos.File
}

var (
	Launches []*Cmd
	StartErr error
	PipeErr  error
)

func Reset() { Launches = nil; StartErr = nil; PipeErr = nil }

func Command(name string, arg ...string) *Cmd {
	return &Cmd{Path: name, Args: append([]string{name}, arg...)}
}

func (c *Cmd) StdinPipe() (io.WriteCloser, error) {
	if PipeErr != nil {
		return nil, PipeErr
	}
	c.pipe = vos.NewPipe()
	return c.pipe, nil
}

func (c *Cmd) Start() error {
	if StartErr != nil {
		return StartErr
	}
	c.Started = true
	Launches = append(Launches, c)
	vos.Note("exec", c.Path)
	return nil
}

func (c *Cmd) Wait() error { return nil }

func (c *Cmd) Run() error {
	if err := c.Start(); err != nil {
		return err
	}
	return c.Wait()
}

// EnvValue returns the last value of key in the command's environment.
func (c *Cmd) EnvValue(key string) (string, bool) {
	val, ok := "", false
	for _, kv := range c.Env {
		if len(kv) > len(key) && kv[:len(key)] == key && kv[len(key)] == '=' {
			val, ok = kv[len(key)+1:], true
		}
	}
	return val, ok
}
