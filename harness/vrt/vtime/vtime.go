// Package vtime stands in for "time" in internal/counter/file.go (import substitution).
// Everything is the real package except AfterFunc: timers are recorded instead of being
// handed to the runtime, and the harness fires them (the instant at which a timer fires
// is then a choice of the harness, like every other clock reading).
package vtime

import "time"

type (
	Time     = time.Time
	Weekday  = time.Weekday
	Duration = time.Duration
	Month    = time.Month
	Location = time.Location
)

const (
	Nanosecond  = time.Nanosecond
	Microsecond = time.Microsecond
	Millisecond = time.Millisecond
	Second      = time.Second
	Minute      = time.Minute
	Hour        = time.Hour
	RFC3339     = time.RFC3339
	DateOnly    = time.DateOnly
)

var UTC = time.UTC

func Now() Time                                  { return time.Now() }
func Until(t Time) Duration                      { return time.Until(t) }
func Since(t Time) Duration                      { return time.Since(t) }
func Unix(sec, nsec int64) Time                  { return time.Unix(sec, nsec) }
func Parse(layout, value string) (Time, error)   { return time.Parse(layout, value) }
func Sleep(d Duration)                           {}
func Date(year int, month Month, day, hour, min, sec, nsec int, loc *Location) Time {
	return time.Date(year, month, day, hour, min, sec, nsec, loc)
}

// Timer is a recorded timer.
type Timer struct {
	D       Duration
	F       func()
	Fired   bool
	Stopped bool
}

// Timers lists every timer created since the last ResetTimers, in creation order.
var Timers []*Timer

func ResetTimers() { Timers = nil }

func AfterFunc(d Duration, f func()) *Timer {
	t := &Timer{D: d, F: f}
	Timers = append(Timers, t)
	return t
}

func (t *Timer) Stop() bool {
	was := !t.Fired && !t.Stopped
	t.Stopped = true
	return was
}

func (t *Timer) Reset(d Duration) bool {
	was := !t.Fired && !t.Stopped
	t.D, t.Fired, t.Stopped = d, false, false
	return was
}

// Pending returns the timers that have neither fired nor been stopped.
func Pending() []*Timer {
	var out []*Timer
	for _, t := range Timers {
		if !t.Fired && !t.Stopped {
			out = append(out, t)
		}
	}
	return out
}

// Fire runs the timer's function now (on the caller's goroutine).
func (t *Timer) Fire() {
	t.Fired = true
	t.F()
}
