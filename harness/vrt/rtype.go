package vrt

import "reflect"

// RType stands for reflect.Type values under the engine: the engine gives reflect.TypeOf
// and (reflect.Value).Type results this dynamic type and intercepts the methods below by
// name (their bodies are never executed). Only what chartconfig.Parse uses is modelled.
type RType struct{}

func (*RType) NumField() int                 { panic("engine only") }
func (*RType) Field(i int) reflect.StructField { panic("engine only") }
func (*RType) Kind() reflect.Kind            { panic("engine only") }
func (*RType) Elem() reflect.Type            { panic("engine only") }
func (*RType) Name() string                  { panic("engine only") }
func (*RType) String() string                { panic("engine only") }
