// Package vcounter stands in for internal/counter in the uploader (import substitution):
// Parse returns the decoded file a harness registered for the given file *content*
// (an opaque token), and falls back to the real parser for anything else. The real
// parser is the subject of C06; the uploader's own handling of parse results - including
// its cache of them - stays the real code.
package vcounter

import (
	real "golang.org/x/telemetry/internal/counter"
)

type File = real.File

var files = map[string]*File{}

// Register makes Parse return f for files whose content is exactly content.
func Register(content string, f *File) { files[content] = f }

// Reset forgets all registered contents.
func Reset() { files = map[string]*File{} }

func Parse(filename string, data []byte) (*File, error) {
	if f, ok := files[string(data)]; ok {
		return f, nil
	}
	return real.Parse(filename, data)
}

func IsStackCounter(name string) bool { return real.IsStackCounter(name) }
