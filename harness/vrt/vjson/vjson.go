// Package vjson stands in for encoding/json in the packages under test. Natively it
// forwards to encoding/json. Under the symbolic engine (vrt.IsSymbolic) serialisation is
// not interpreted: Marshal* records the value and returns a short unique token; Unmarshal
// and Decoder.Decode hand back the recorded value for a token. The claim therefore
// trusts encoding/json to print and parse exactly the value it is given.
package vjson

import (
	"encoding/json"
	"io"

	"golang.org/x/telemetry/internal/vrt"
)

type Entry struct {
	Token []byte
	Val   any
}

var Log []Entry

func Reset() { Log = nil }

func token(n int) []byte {
	return []byte{'J', byte('0' + n/10), byte('0' + n%10)}
}

func record(v any) []byte {
	t := token(len(Log))
	Log = append(Log, Entry{Token: t, Val: v})
	return t
}

// Lookup returns the value recorded for a token (symbolic mode).
func Lookup(data []byte) (any, bool) {
	for _, e := range Log {
		if string(e.Token) == string(data) {
			return e.Val, true
		}
	}
	return nil, false
}

func Marshal(v any) ([]byte, error) {
	if vrt.IsSymbolic() {
		return record(v), nil
	}
	return json.Marshal(v)
}

func MarshalIndent(v any, prefix, indent string) ([]byte, error) {
	if vrt.IsSymbolic() {
		return record(v), nil
	}
	return json.MarshalIndent(v, prefix, indent)
}

// UnmarshalHook lets a harness give Unmarshal a meaning in symbolic mode: it receives the
// bytes and the destination pointer and returns an error (or nil after filling dst).
var UnmarshalHook func(data []byte, dst any) error

func Unmarshal(data []byte, v any) error {
	if vrt.IsSymbolic() {
		if UnmarshalHook != nil {
			return UnmarshalHook(data, v)
		}
		return nil
	}
	return json.Unmarshal(data, v)
}

type Decoder struct {
	r    io.Reader
	real *json.Decoder
}

func NewDecoder(r io.Reader) *Decoder {
	if vrt.IsSymbolic() {
		return &Decoder{r: r}
	}
	return &Decoder{r: r, real: json.NewDecoder(r)}
}

// DecodeHook gives Decoder.Decode a meaning in symbolic mode.
var DecodeHook func(r io.Reader, dst any) error

func (d *Decoder) Decode(v any) error {
	if d.real != nil {
		return d.real.Decode(v)
	}
	if DecodeHook != nil {
		return DecodeHook(d.r, v)
	}
	return nil
}

func (d *Decoder) DisallowUnknownFields() {
	if d.real != nil {
		d.real.DisallowUnknownFields()
	}
}

type Encoder struct {
	w    io.Writer
	real *json.Encoder
}

func NewEncoder(w io.Writer) *Encoder {
	if vrt.IsSymbolic() {
		return &Encoder{w: w}
	}
	return &Encoder{w: w, real: json.NewEncoder(w)}
}

func (e *Encoder) Encode(v any) error {
	if e.real != nil {
		return e.real.Encode(v)
	}
	// like the real encoder: the value followed by a newline
	_, err := e.w.Write(append(record(v), '\n'))
	return err
}

func (e *Encoder) SetIndent(prefix, indent string) {
	if e.real != nil {
		e.real.SetIndent(prefix, indent)
	}
}

type RawMessage = json.RawMessage

// Valid: symbolic mode knows exactly the byte strings it produced itself.
func Valid(data []byte) bool {
	if vrt.IsSymbolic() {
		_, ok := Lookup(data)
		return ok
	}
	return json.Valid(data)
}
