package vrt

// Independent calendar arithmetic for harness oracles (proleptic Gregorian, days since
// 1970-01-01; Howard Hinnant's civil_from_days / days_from_civil). Deliberately not
// package time.

func DaysFromCivil(y, m, d int64) int64 {
	if m <= 2 {
		y--
	}
	var era int64
	if y >= 0 {
		era = y / 400
	} else {
		era = (y - 399) / 400
	}
	yoe := y - era*400
	mp := (m + 9) % 12
	doy := (153*mp+2)/5 + d - 1
	doe := yoe*365 + yoe/4 - yoe/100 + doy
	return era*146097 + doe - 719468
}

func CivilFromDays(z int64) (y, m, d int64) {
	z += 719468
	var era int64
	if z >= 0 {
		era = z / 146097
	} else {
		era = (z - 146096) / 146097
	}
	doe := z - era*146097
	yoe := (doe - doe/1460 + doe/36524 - doe/146096) / 365
	y = yoe + era*400
	doy := doe - (365*yoe + yoe/4 - yoe/100)
	mp := (5*doy + 2) / 153
	d = doy - (153*mp+2)/5 + 1
	if mp < 10 {
		m = mp + 3
	} else {
		m = mp - 9
	}
	if m <= 2 {
		y++
	}
	return
}

func dig(n int64, w int) string {
	b := make([]byte, w)
	for i := w - 1; i >= 0; i-- {
		b[i] = byte('0' + n%10)
		n /= 10
	}
	return string(b)
}

// DateStr renders day (days since 1970-01-01) as YYYY-MM-DD.
func DateStr(day int64) string {
	y, m, d := CivilFromDays(day)
	return dig(y, 4) + "-" + dig(m, 2) + "-" + dig(d, 2)
}

// RFC3339Midnight renders 00:00:00 UTC of day in RFC 3339.
func RFC3339Midnight(day int64) string { return DateStr(day) + "T00:00:00Z" }

// Weekday of a day number: 0 = Sunday.
func Weekday(day int64) int64 { return ((day%7)+7+4) % 7 }

// boundaryDays are calendar corner cases: year/month ends, leap days of ordinary, century
// and 400-year leap rules, the epoch, the 32-bit rollover, far future.
var boundaryDays = [][3]int64{
	{1970, 1, 1}, {1972, 2, 29}, {1999, 12, 31}, {2000, 2, 29}, {2000, 3, 1}, {2023, 2, 28}, {2023, 12, 31},
	{2024, 1, 1}, {2024, 2, 28}, {2024, 2, 29}, {2024, 3, 1}, {2024, 12, 31}, {2038, 1, 19}, {2099, 12, 31},
	{2100, 2, 28}, {2100, 3, 1}, {2199, 12, 31}, {2261, 12, 31},
}

// PoolDay returns one day number chosen (by forking) from the pool: the boundary days
// followed by `run` consecutive days starting 2023-12-25 (every weekday, a month, a year
// and, for run > 66, a leap day boundary).
func PoolDay(run int) int64 {
	n := len(boundaryDays) + run
	i := Choose(n)
	if i < len(boundaryDays) {
		b := boundaryDays[i]
		return DaysFromCivil(b[0], b[1], b[2])
	}
	return DaysFromCivil(2023, 12, 25) + int64(i-len(boundaryDays))
}

// SecondOfDay is an arbitrary second of a day, 0..86399, built so that the engine's
// interval analysis knows its range.
func SecondOfDay() int64 { return int64(U32() % 86400) }
