// Package vspec holds reference semantics shared by harnesses: the documented meaning of
// an upload configuration written as plain nested loops over the raw configuration (no
// maps, no expansion tables), and the date-only text format.
package vspec

import "golang.org/x/telemetry/internal/telemetry"

func Cut(s string, c byte) (string, string, bool) {
	for i := 0; i < len(s); i++ {
		if s[i] == c {
			return s[:i], s[i+1:], true
		}
	}
	return s, "", false
}

// has is written without early exits so that a symbolic executor can merge it into one
// expression instead of forking per element.
func has(list []string, s string) bool {
	r := false
	for _, v := range list {
		if v == s {
			r = true
		}
	}
	return r
}

// CounterRate: is `name` an approved counter of program prog (after expanding
// prefix{b1,b2,...}), and at which rate (the last matching entry wins).
func CounterRate(cfg *telemetry.UploadConfig, prog, name string) (bool, float64) {
	ok, rate := false, 0.0
	for _, p := range cfg.Programs {
		if p.Name != prog {
			continue
		}
		for _, c := range p.Counters {
			pre, rest, hasB := Cut(c.Name, '{')
			if !hasB {
				if c.Name == name {
					ok, rate = true, c.Rate
				}
				continue
			}
			if len(rest) > 0 && rest[len(rest)-1] == '}' {
				rest = rest[:len(rest)-1]
			}
			for {
				b, more, hasMore := Cut(rest, ',')
				if pre+b == name {
					ok, rate = true, c.Rate
				}
				if !hasMore {
					break
				}
				rest = more
			}
		}
	}
	return ok, rate
}

// StackRate: is the stack counter `name` approved (matched by the text before the first
// newline), and at which rate.
func StackRate(cfg *telemetry.UploadConfig, prog, name string) (bool, float64) {
	before, _, _ := Cut(name, '\n')
	ok, rate := false, 0.0
	for _, p := range cfg.Programs {
		if p.Name != prog {
			continue
		}
		for _, s := range p.Stacks {
			if s.Name == before {
				ok, rate = true, s.Rate
			}
		}
	}
	return ok, rate
}

// ProgramOK: program path, version and Go version are listed.
func ProgramOK(cfg *telemetry.UploadConfig, prog, vers, gov string) bool {
	pv := false
	for _, p := range cfg.Programs {
		for _, v := range p.Versions {
			if p.Name == prog && v == vers {
				pv = true
			}
		}
	}
	g := has(cfg.GoVersion, gov)
	return pv && g
}

// BuildOK: ProgramOK plus listed GOOS and GOARCH (what the server and the viewer require).
func BuildOK(cfg *telemetry.UploadConfig, prog, vers, gov, goos, goarch string) bool {
	a, b, c := ProgramOK(cfg, prog, vers, gov), has(cfg.GOOS, goos), has(cfg.GOARCH, goarch)
	return a && b && c
}

// IsDateOnly: s is exactly YYYY-MM-DD with a month 01..12 and a day that exists in that
// month of that year (proleptic Gregorian).
func IsDateOnly(s string) bool {
	if len(s) != 10 || s[4] != '-' || s[7] != '-' {
		return false
	}
	for i := 0; i < 10; i++ {
		if i != 4 && i != 7 && (s[i] < '0' || s[i] > '9') {
			return false
		}
	}
	y := int(s[0]-'0')*1000 + int(s[1]-'0')*100 + int(s[2]-'0')*10 + int(s[3]-'0')
	m := int(s[5]-'0')*10 + int(s[6]-'0')
	d := int(s[8]-'0')*10 + int(s[9]-'0')
	if m < 1 || m > 12 || d < 1 {
		return false
	}
	dim := 31
	switch m {
	case 4, 6, 9, 11:
		dim = 30
	case 2:
		dim = 28
		if y%4 == 0 && (y%100 != 0 || y%400 == 0) {
			dim = 29
		}
	}
	return d <= dim
}
