// Package vrt is the harness runtime shared by the symbolic engine and native replay.
//
// Under the engine (/verif/engine) the nondet/assume/assert functions are intercepted by
// name and their bodies are ignored; compiled natively they read the solver's model from
// the replay file named by VERIF_REPLAY so that a counterexample can be re-run against the
// real code.
package vrt

import (
	"encoding/json"
	"fmt"
	"math"
	"os"
	"runtime/debug"
	"time"
)

// ReadBuildInfo is what debug.ReadBuildInfo returns under the engine (fixed build).
func ReadBuildInfo() (*debug.BuildInfo, bool) {
	return &debug.BuildInfo{GoVersion: "go1.23.5", Path: "example.com/cmd/prog", Main: debug.Module{Path: "example.com/cmd", Version: "v1.2.3"}}, true
}

type RuntimeError string

func (e RuntimeError) Error() string { return string(e) }
func (e RuntimeError) RuntimeError() {}

// StrError / WrapError are the dynamic types of errors made by the engine's fmt.Errorf model.
type StrError struct{ S string }

func (e *StrError) Error() string { return e.S }

type WrapError struct {
	Msg string
	Err error
}

func (e *WrapError) Error() string { return e.Msg }
func (e *WrapError) Unwrap() error { return e.Err }

// ---- native replay state ----

type Replay struct {
	Entry  string   `json:"entry"`
	Label  string   `json:"label"`
	Kind   string   `json:"kind"`
	Values []uint64 `json:"values"`
}

var (
	queue    []uint64
	qi       int
	Violated []string
)

type assumeFailed struct{}
type stopped struct{}

func next() uint64 {
	if qi < len(queue) {
		v := queue[qi]
		qi++
		return v
	}
	qi++
	return 0
}

func IsSymbolic() bool { return false }

func U8() uint8   { return uint8(next()) }
func U16() uint16 { return uint16(next()) }
func U32() uint32 { return uint32(next()) }
func U64() uint64 { return next() }
func I64() int64  { return int64(next()) }
func I32() int32  { return int32(next()) }
func Int() int    { return int(next()) }
func Bool() bool  { return next()&1 != 0 }
func F64() float64 {
	return math.Float64frombits(next())
}

func Assume(c bool) {
	if !c {
		panic(assumeFailed{})
	}
}

func Assert(c bool, label string) {
	if !c {
		Violated = append(Violated, label)
		fmt.Printf("VERIF-REPLAY violated label=%q\n", label)
	}
}

func Fail(label string)   { Assert(false, label) }

// Unsupported ends the path under the engine as "unsupported" (reported, never counted as
// covered). Natively it never runs: models that call it are engine-only redirects.
func Unsupported(msg string) { panic("vrt.Unsupported: " + msg) }
func Reach(label string)  {}
func Stop()               { panic(stopped{}) }
func PanicOK()            {}
func MapOrderSymbolic(on bool) {}

// Param returns a harness parameter (bounds); the engine may override the default from the spec.
// Natively the replay file carries the overrides.
var params map[string]int

func Param(name string, def int) int {
	if v, ok := params[name]; ok {
		return v
	}
	return def
}

func Choose(n int) int {
	if n <= 1 {
		return 0
	}
	return int(next() % uint64(n))
}

func ConcreteInt(x int) int       { return x }
func ConcreteU32(x uint32) uint32 { return x }
func ConcreteU64(x uint64) uint64 { return x }
func ConcreteU8(x uint8) uint8    { return x }

func Bytes(n int) []byte {
	b := make([]byte, n)
	for i := range b {
		b[i] = byte(next())
	}
	return b
}
func BigBytes(n int) []byte { return Bytes(n) }
func String(n int) string   { return string(Bytes(n)) }
func MarkDead(b []byte)     {}

// UF is an uninterpreted function (engine only).
func UF(name string, args []uint64) uint64 { panic("vrt.UF is symbolic-only") }

// OnExit is called by the engine's os.Exit model (symbolic side only).
// ---- observations (translator self-test) ----

// Observed collects the values passed to Observe during one native replay. Under the
// engine Observe records the (possibly symbolic) term; `verif selftest` evaluates it in a
// model of the path condition and compares with what the native run observed for the same
// input values.
var Observed []uint64

func Observe(v uint64)   { Observed = append(Observed, v) }
func ObserveInt(v int)   { Observe(uint64(v)) }
func ObserveI64(v int64) { Observe(uint64(v)) }
func ObserveBool(b bool) {
	if b {
		Observe(1)
	} else {
		Observe(0)
	}
}
func ObserveStr(s string) {
	Observe(uint64(len(s)))
	for i := 0; i < len(s); i++ {
		Observe(uint64(s[i]))
	}
}
func ObserveBytes(b []byte) { ObserveStr(string(b)) }
func ObserveErr(err error)  { ObserveBool(err != nil) }

func printObserved(i int) {
	if len(Observed) == 0 {
		return
	}
	var sb []byte
	for j, v := range Observed {
		if j > 0 {
			sb = append(sb, ',')
		}
		sb = append(sb, fmt.Sprintf("%x", v)...)
	}
	fmt.Printf("VERIF-REPLAY index=%d observed=%s\n", i, sb)
}

var ExitHook func(code int)

func OnExit(code int) {
	if ExitHook != nil {
		ExitHook(code)
	}
}

// ReplayMain runs the entry named in the replay file. It is called from a generated test.
func ReplayMain(entries map[string]func()) {
	path := os.Getenv("VERIF_REPLAY")
	data, err := os.ReadFile(path)
	if err != nil {
		fmt.Printf("VERIF-REPLAY error reading %s: %v\n", path, err)
		return
	}
	var rs []struct {
		Replay
		Params map[string]int `json:"params"`
	}
	if err := json.Unmarshal(data, &rs); err != nil {
		fmt.Printf("VERIF-REPLAY error parsing: %v\n", err)
		return
	}
	only := os.Getenv("VERIF_REPLAY_INDEX")
	for i, r := range rs {
		if only != "" && only != fmt.Sprint(i) {
			continue
		}
		f := entries[r.Entry]
		if f == nil {
			fmt.Printf("VERIF-REPLAY index=%d error unknown entry %s\n", i, r.Entry)
			continue
		}
		queue, qi, Violated, Observed = r.Values, 0, nil, nil
		params = r.Params
		fmt.Printf("VERIF-REPLAY index=%d begin entry=%s\n", i, r.Entry)
		func() {
			defer func() {
				if x := recover(); x != nil {
					switch x.(type) {
					case assumeFailed:
						fmt.Printf("VERIF-REPLAY index=%d assume-failed\n", i)
					case stopped:
						printObserved(i)
						fmt.Printf("VERIF-REPLAY index=%d stopped violated=%d\n", i, len(Violated))
					default:
						Observed = append(Observed, 0xdead) // selftest: the run ended in a panic
						printObserved(i)
						fmt.Printf("VERIF-REPLAY index=%d panic %v\n", i, x)
					}
				}
			}()
			f()
			printObserved(i)
			fmt.Printf("VERIF-REPLAY index=%d end violated=%d\n", i, len(Violated))
		}()
	}
}

// StringOfLen returns a string of the given (possibly symbolic) length whose content is
// opaque to the engine: only len() may be applied to it. Natively: n zero bytes.
func StringOfLen(n int) string { return string(make([]byte, n)) }

// AliasBytes returns a slice over the same memory that the engine tracks as a separate
// mapping object (so that MarkDead on it does not affect other views). Natively: b.
func AliasBytes(b []byte) []byte { return b }

// NowSec is the wall clock under the engine: calls to time.Now are redirected to Now.
// Natively the real clock is used (harnesses must therefore derive "today" from
// time.Now themselves rather than from NowSec).
var NowSec int64 = 1704103445 // 2024-01-01T10:04:05Z

func Now() time.Time { return time.Unix(NowSec, 0) }

// NativeTrace reports whether native replay was asked to show the program's own debug
// output (VERIF_TRACE=1); always false under the engine.
func NativeTrace() bool { return !IsSymbolic() && os.Getenv("VERIF_TRACE") != "" }

// TraceWrite copies debug output of the code under test to the real stderr (native only).
func TraceWrite(b []byte) { os.Stderr.Write(b) }
