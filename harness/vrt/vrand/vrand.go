// Package vrand stands in for crypto/rand in internal/upload/reports.go: Read returns the
// bytes chosen by the harness (Next), else real randomness.
package vrand

import "crypto/rand"

var Next []byte

func Read(b []byte) (int, error) {
	if Next != nil {
		return copy(b, Next), nil
	}
	return rand.Read(b)
}
