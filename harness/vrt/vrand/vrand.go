// Package vrand stands in for crypto/rand in internal/upload/reports.go: Read returns the
// bytes chosen by the harness (Fn or Next), else real randomness.
package vrand

import "crypto/rand"

var (
	Next []byte
	Fn   func() []byte // if set, supplies the bytes of each Read
)

func Read(b []byte) (int, error) {
	if Fn != nil {
		return copy(b, Fn()), nil
	}
	if Next != nil {
		return copy(b, Next), nil
	}
	return rand.Read(b)
}
