// Package vruntime stands in for package runtime in internal/counter/stackcounter.go
// (import substitution by the verification engine). With no hook installed it forwards
// to the real runtime, so natively compiled code behaves as before; a harness installs
// hooks to supply arbitrary program counters and frame records.
package vruntime

import "runtime"

const (
	GOOS   = runtime.GOOS
	GOARCH = runtime.GOARCH
)

type Func struct{ EntryLine int }

func (f *Func) FileLine(pc uintptr) (string, int) { return "", f.EntryLine }

type Frame struct {
	PC       uintptr
	Func     *Func
	Function string
	File     string
	Line     int
	Entry    uintptr
}

type Frames struct {
	list []Frame
	i    int
}

func (f *Frames) Next() (Frame, bool) {
	if f.i >= len(f.list) {
		return Frame{}, false
	}
	fr := f.list[f.i]
	f.i++
	return fr, f.i < len(f.list)
}

var (
	FramesHook  func(pcs []uintptr) []Frame
	CallersHook func(pcs []uintptr) int
)

func CallersFrames(pcs []uintptr) *Frames {
	if FramesHook != nil {
		return &Frames{list: FramesHook(pcs)}
	}
	real := runtime.CallersFrames(pcs)
	var list []Frame
	for {
		fr, more := real.Next()
		f := Frame{PC: fr.PC, Function: fr.Function, File: fr.File, Line: fr.Line, Entry: fr.Entry}
		if fr.Func != nil {
			_, l := fr.Func.FileLine(fr.Entry)
			f.Func = &Func{EntryLine: l}
		}
		list = append(list, f)
		if !more {
			break
		}
	}
	return &Frames{list: list}
}

func Callers(skip int, pc []uintptr) int {
	if CallersHook != nil {
		return CallersHook(pc)
	}
	return runtime.Callers(skip+1, pc)
}

func KeepAlive(x any) { runtime.KeepAlive(x) }
