// Package vcrash stands in for internal/crashmonitor in start.go (the monitor's own
// behaviour is C14): calls are recorded.
package vcrash

import "golang.org/x/telemetry/internal/vrt/vos"

var (
	ParentCalls int
	ChildCalls  int
)

func Reset() { ParentCalls, ChildCalls = 0, 0 }

func Parent(pipe *vos.File) { ParentCalls++; vos.Note("crashmonitor.Parent", "") }
func Child()               { ChildCalls++; vos.Note("crashmonitor.Child", "") }
