// Package vhttp stands in for net/http in internal/upload: Post is answered by the
// harness's PostHook and every request is logged.
package vhttp

import (
	"errors"
	"io"

	"golang.org/x/telemetry/internal/vrt/vos"
)

type Response struct {
	Status     string
	StatusCode int
	Body       io.ReadCloser
}

type Request struct {
	URL  string
	Body []byte
	Code int
	Err  bool
}

var (
	Log      []Request
	PostHook func(url string, body []byte) (status int, err error)
)

func Reset() { Log = nil; PostHook = nil }

const (
	StatusOK                  = 200
	StatusBadRequest          = 400
	StatusUnauthorized        = 401
	StatusForbidden           = 403
	StatusNotFound            = 404
	StatusRequestTimeout      = 408
	StatusConflict            = 409
	StatusGone                = 410
	StatusRequestEntityTooLarge = 413
	StatusTooManyRequests     = 429
	StatusInternalServerError = 500
	StatusBadGateway          = 502
	StatusServiceUnavailable  = 503
	StatusGatewayTimeout      = 504
)

func Post(url, contentType string, body io.Reader) (*Response, error) {
	// a request is a scheduling point and a possible kill point, like a file-system call
	if err := vos.Step("post", url); err != nil {
		return nil, err
	}
	b, _ := io.ReadAll(body)
	code, err := 200, error(nil)
	if PostHook != nil {
		code, err = PostHook(url, b)
	}
	Log = append(Log, Request{URL: url, Body: b, Code: code, Err: err != nil})
	if err != nil {
		return nil, err
	}
	return &Response{Status: "status", StatusCode: code, Body: io.NopCloser(nil)}, nil
}

var ErrNoAnswer = errors.New("no answer")
