// Package vmmap stands in for golang.org/x/telemetry/internal/mmap over the vos file
// model: a mapping is a view of the file node's content (MAP_SHARED semantics: stores
// through the mapping are the file's content and are seen by every other mapping).
// Munmap marks the view dead; the engine reports any later access through it as a fault.
//
// Native replay normally cannot observe such an access (a Go slice cannot be revoked).
// With VERIF_REAL_UNMAP=1 - set by the replay driver for exactly those counterexamples -
// every mapping is its own anonymous memory region kept coherent with the file content
// at every scheduling point (threads are cooperative, so only one writer runs between two
// scheduling points), and Munmap really unmaps it: a later access is a real SIGSEGV.
package vmmap

import (
	"errors"
	"os"
	"syscall"

	"golang.org/x/telemetry/internal/vrt"
	"golang.org/x/telemetry/internal/vrt/vos"
)

type Data struct {
	f       *vos.File
	Data    []byte
	Windows interface{}
}

var (
	FailMmap func(name string) error
	Mapped   int // live mappings (leak accounting)
)

type view struct {
	node *vos.Node
	buf  []byte
	snap []byte
}

var (
	views     []*view
	realUnmap = !vrt.IsSymbolic() && os.Getenv("VERIF_REAL_UNMAP") != ""
)

// sync makes all views and the file content agree again (native real-unmap mode only).
func sync() {
	for _, v := range views {
		for i := range v.buf {
			if v.buf[i] != v.snap[i] && i < len(v.node.Data) {
				v.node.Data[i] = v.buf[i]
			}
		}
	}
	for _, v := range views {
		n := copy(v.buf, v.node.Data)
		copy(v.snap, v.buf[:n])
	}
}

func Mmap(f *vos.File) (*Data, error) {
	if FailMmap != nil {
		if err := FailMmap(f.Name()); err != nil {
			return nil, err
		}
	}
	st, err := f.Stat()
	if err != nil {
		return nil, err
	}
	size := st.Size()
	if size == 0 {
		return &Data{f, nil, nil}, nil
	}
	n := f.Node()
	if n == nil || n.Dir {
		return nil, errors.New("mmap: not a regular file")
	}
	Mapped++
	if realUnmap {
		sync()
		buf, err := syscall.Mmap(-1, 0, int(size), syscall.PROT_READ|syscall.PROT_WRITE, syscall.MAP_ANON|syscall.MAP_PRIVATE)
		if err != nil {
			return nil, err
		}
		copy(buf, n.Data[:size])
		views = append(views, &view{node: n, buf: buf, snap: append([]byte(nil), buf...)})
		vrt.SyncHook = sync
		return &Data{f, buf, nil}, nil
	}
	return &Data{f, vrt.AliasBytes(n.Data[:size:size]), nil}, nil
}

func Munmap(d *Data) error {
	if d.Data == nil {
		return nil
	}
	Mapped--
	if realUnmap {
		sync()
		for i, v := range views {
			if &v.buf[0] == &d.Data[0] {
				views = append(views[:i], views[i+1:]...)
				break
			}
		}
		return syscall.Munmap(d.Data)
	}
	vrt.MarkDead(d.Data)
	return nil
}
