// Package vmmap stands in for golang.org/x/telemetry/internal/mmap over the vos file
// model: a mapping is a view of the file node's content (MAP_SHARED semantics: stores
// through the mapping are the file's content and are seen by every other mapping).
// Munmap marks the view dead; the engine reports any later access through it as a fault.
package vmmap

import (
	"errors"

	"golang.org/x/telemetry/internal/vrt"
	"golang.org/x/telemetry/internal/vrt/vos"
)

type Data struct {
	f       *vos.File
	Data    []byte
	Windows interface{}
}

var (
	FailMmap func(name string) error
	Mapped   int // live mappings (leak accounting)
)

func Mmap(f *vos.File) (*Data, error) {
	if FailMmap != nil {
		if err := FailMmap(f.Name()); err != nil {
			return nil, err
		}
	}
	st, err := f.Stat()
	if err != nil {
		return nil, err
	}
	size := st.Size()
	if size == 0 {
		return &Data{f, nil, nil}, nil
	}
	n := f.Node()
	if n == nil || n.Dir {
		return nil, errors.New("mmap: not a regular file")
	}
	Mapped++
	return &Data{f, vrt.AliasBytes(n.Data[:size:size]), nil}, nil
}

func Munmap(d *Data) error {
	if d.Data == nil {
		return nil
	}
	vrt.MarkDead(d.Data)
	Mapped--
	return nil
}
