package main

// Harness for C19 (gotelemetry mode commands and clean).

import (
	"time"

	"golang.org/x/telemetry/internal/telemetry"
	"golang.org/x/telemetry/internal/vrt"
	"golang.org/x/telemetry/internal/vrt/vos"
)

const c19root = "/t"

// near-miss suffix pool
var c19suffixes = []string{".v1.count", ".v1.coun", "v1.count", ".v2.count", ".json", ".jso", "json", ".json.lock", ".token", ""}

func c19name() string {
	stem := vrt.String(vrt.Choose(2))
	for i := 0; i < len(stem); i++ {
		vrt.Assume(stem[i] != '/' && stem[i] != 0)
	}
	var s string
	if vrt.Choose(6) == 0 {
		s = stem + vrt.String(1+vrt.Choose(vrt.Param("free", 3))) // fully arbitrary tail
		for i := 0; i < len(s); i++ {
			vrt.Assume(s[i] != '/' && s[i] != 0)
		}
	} else {
		s = stem + c19suffixes[vrt.Choose(len(c19suffixes))]
	}
	vrt.Assume(len(s) > 0 && s != "." && s != "..")
	return s
}

func c19hasSuffix(s, suf string) bool {
	return len(s) >= len(suf) && s[len(s)-len(suf):] == suf
}

type c19ent struct {
	path    string
	dir     bool
	content []byte
	del     bool // expected to be removed by clean
}

func c19setup() {
	vos.Reset()
	telemetry.Default = telemetry.NewDir(c19root)
	vos.AddDir(c19root)
}

// VC19_clean: clean removes exactly the data files of the two data directories.
func VC19_clean() {
	c19setup()
	var ents []*c19ent
	add := func(path string, dir bool, del bool) {
		for _, e := range ents {
			vrt.Assume(e.path != path)
		}
		e := &c19ent{path: path, dir: dir, del: del}
		if dir {
			vos.AddDir(path)
		} else {
			e.content = vrt.Bytes(1)
			vos.AddFile(path, e.content)
		}
		ents = append(ents, e)
	}
	haveLocal := vrt.Bool()
	haveUpload := vrt.Bool()
	n := vrt.Param("entries", 2)
	if haveLocal {
		vos.AddDir(c19root + "/local")
		for i := 0; i < n; i++ {
			nm := c19name()
			add(c19root+"/local/"+nm, vrt.Bool(), c19hasSuffix(nm, ".v1.count") || c19hasSuffix(nm, ".json"))
		}
	}
	if haveUpload {
		vos.AddDir(c19root + "/upload")
		for i := 0; i < n; i++ {
			nm := c19name()
			add(c19root+"/upload/"+nm, false, c19hasSuffix(nm, ".json"))
		}
	}
	// an entry that matches a data-file suffix but cannot be removed (a non-empty
	// directory; it sorts before the other entries): clean must still remove the rest
	if haveLocal && vrt.Bool() {
		add(c19root+"/local/!.json", true, false)
		add(c19root+"/local/!.json/inner", false, false)
	}
	// bystanders that must survive byte-for-byte
	add(c19root+"/mode", false, false)
	add(c19root+"/local.json", false, false) // sibling of the data directories
	if haveLocal {
		add(c19root+"/local/upload.token", false, false)
		if vrt.Param("bystanders", 1) > 1 {
			add(c19root+"/local/weekends", false, false)
		}
	}
	vos.AddDir(c19root + "/debug")
	add(c19root+"/debug/x.json", false, false)

	runClean(nil)

	for _, e := range ents {
		nd := vos.Lookup(e.path)
		if e.del {
			vrt.Assert(nd == nil, "clean: every counter file and report is removed")
		} else {
			vrt.Assert(nd != nil, "clean: nothing else is removed")
			if nd != nil && !e.dir {
				vrt.Assert(string(nd.Data) == string(e.content), "clean: other files stay byte-identical")
			}
		}
	}
	for _, ev := range vos.Events {
		vrt.Assert(ev.Op == "remove", "clean: only removals happen")
	}
}

func c19modeContent() (string, bool) {
	switch vrt.Choose(4) {
	case 0:
		return "", false // no mode file
	case 1:
		m := []string{"on", "off", "local"}[vrt.Choose(3)]
		return m, true
	case 2:
		m := []string{"on", "off", "local"}[vrt.Choose(3)]
		return m + " 2023-09-0" + string(rune('1'+vrt.Choose(3))), true
	default:
		s := vrt.String(vrt.Choose(vrt.Param("mode_len", 4) + 1))
		return s, true
	}
}

// VC19_mode: on/local/off change only the mode file, not at all when the mode is already
// the requested one, and otherwise record mode + current date so that a later read
// returns them.
func VC19_mode() {
	c19setup()
	content, have := c19modeContent()
	if have {
		vos.AddFile(c19root+"/mode", []byte(content))
	}
	vos.AddDir(c19root + "/local")
	vos.AddFile(c19root+"/local/weekends", []byte("3\n"))
	vos.AddFile(c19root+"/local/a.v1.count", []byte("c"))
	before, _ := telemetry.Default.Mode()
	vos.Events = nil
	cmd := vrt.Choose(3)
	want := []string{"on", "local", "off"}[cmd]
	t0 := time.Now().UTC()
	switch cmd {
	case 0:
		runOn(nil)
	case 1:
		runLocal(nil)
	case 2:
		runOff(nil)
	}
	t1 := time.Now().UTC()
	if before == want {
		vrt.Assert(len(vos.Events) == 0, "mode command: no change when the mode is already the requested one")
		return
	}
	vrt.Reach("mode changed")
	writes := 0
	for _, ev := range vos.Events {
		switch ev.Op {
		case "write", "create", "truncate":
			vrt.Assert(ev.Path == c19root+"/mode", "mode command: only the mode file is written")
			if ev.Op == "write" {
				writes++
			}
		default:
			vrt.Assert(false, "mode command: no other kind of change")
		}
	}
	vrt.Assert(writes == 1, "mode command: exactly one write")
	nd := vos.Lookup(c19root + "/mode")
	vrt.Assert(nd != nil, "mode command: mode file exists afterwards")
	if nd == nil {
		return
	}
	d0, d1 := t0.Format("2006-01-02"), t1.Format("2006-01-02")
	got := string(nd.Data)
	vrt.Assert(got == want+" "+d0 || got == want+" "+d1, "mode command: file holds the requested mode and the current date")
	m, asof := telemetry.Default.Mode()
	vrt.Assert(m == want, "mode command: a later read reports the requested mode")
	ad := asof.Format("2006-01-02")
	vrt.Assert(ad == d0 || ad == d1, "mode command: a later read reports the current date")
	w := vos.Lookup(c19root + "/local/weekends")
	c := vos.Lookup(c19root + "/local/a.v1.count")
	vrt.Assert(w != nil && string(w.Data) == "3\n" && c != nil && string(c.Data) == "c", "mode command: other files untouched")
}

// VC19_seq: a sequence of mode commands; after each one a read returns the last
// requested mode, and re-issuing the same command changes nothing.
func VC19_seq() {
	c19setup()
	n := vrt.Param("cmds", 3)
	for i := 0; i < n; i++ {
		cmd := vrt.Choose(3)
		want := []string{"on", "local", "off"}[cmd]
		before, _ := telemetry.Default.Mode()
		vos.Events = nil
		switch cmd {
		case 0:
			runOn(nil)
		case 1:
			runLocal(nil)
		case 2:
			runOff(nil)
		}
		if before == want {
			vrt.Assert(len(vos.Events) == 0, "mode sequence: repeated command is a no-op")
		}
		m, _ := telemetry.Default.Mode()
		vrt.Assert(m == want, "mode sequence: read-back returns the last requested mode")
	}
}
