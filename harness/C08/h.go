package upload

// Harness for C08 (at most one report per week is delivered, under races, retries and
// crashes).

import (
	"errors"

	"golang.org/x/telemetry/internal/telemetry"
	"golang.org/x/telemetry/internal/vrt"
	"golang.org/x/telemetry/internal/vrt/vhttp"
	"golang.org/x/telemetry/internal/vrt/vos"
)

type c8req struct {
	week, body string
	code       int // 200, 400, 500, 0 = no answer
	recorded   bool
}

var (
	c8log    []c8req
	c8server int // 0 always 200; 1 validating (400 for a body that is not a complete report); 2 arbitrary per request
	c8x      = 0.5
)

func c8nextX() float64 { c8x = c8x / 2; return c8x }

// c8post is the server: it answers according to c8server and logs what it saw.
func c8post(url string, body []byte) (int, error) {
	week := url[len("http://srv/"):]
	code := 200
	switch c8server {
	case 1:
		if vuReport(body) == nil {
			code = 400
		}
	case 2:
		code = []int{200, 400, 500, 0, 408, 429, 413, 503}[vrt.Choose(vrt.Param("outcomes", 6))]
	}
	c8log = append(c8log, c8req{week: week, body: string(body), code: code, recorded: vuExists(vuDir + "/upload/" + week + ".json")})
	if code == 0 {
		return 0, errors.New("no answer")
	}
	return code, nil
}

func c8setup() (week string, end int64) {
	vuReset()
	vrt.ResetThreads()
	c8log = nil
	c8x = 0.5
	vhttp.PostHook = c8post
	vos.AddFile(vuDir+"/mode", []byte("on 2000-01-01"))
	end = vrt.DaysFromCivil(2024, 1, 7)
	return vrt.DateStr(end), end
}

func c8uploader(end int64) *uploader {
	return vuUploader(&telemetry.UploadConfig{}, vuInstant(end+3, 3600))
}

// c8check: the safety clauses over everything the server saw for the week.
func c8check(week string) (acks int) {
	first := ""
	for _, r := range c8log {
		vrt.Assert(r.week == week, "requests are made for the week of the report only")
		vrt.Assert(!r.recorded, "a report recorded as uploaded is never sent again")
		if r.code == 200 {
			acks++
			if first == "" {
				first = r.body
			}
			vrt.Assert(r.body == first, "the server never acknowledges two different report bodies for the same week")
		}
	}
	return acks
}

// VC08_seq: sequential runs with any server outcome per request and a kill after any
// file-system/HTTP call of the first two runs; then a clean run answered 200.
func VC08_seq() {
	week, end := c8setup()
	c8server = 2
	u0 := c8uploader(end)
	vuAddCountFile(u0, "f", end-7, end, vuBuilds[0], map[string]uint64{"c": 3})
	ready := vuDir + "/local/" + week + ".json"
	uploaded := vuDir + "/upload/" + week + ".json"
	// optionally a second uploadable file for the same week under a name that only ends in
	// the date (a stray copy): the week must still be acknowledged at most once
	// (it appears after the first run, when the week's own report may already exist)
	stray := vrt.Bool()
	kills, rejected := 0, false
	for run := 0; run < vrt.Param("runs", 2); run++ {
		if stray && run == 1 {
			vos.AddFile(vuDir+"/local/copy-"+week+".json", []byte("S"))
		}
		u := c8uploader(end)
		vuPreload(u, u0)
		vuX = c8nextX()
		vos.Revive(0)
		if k := vrt.Choose(vrt.Param("killpoints", 14) + 1); k > 0 {
			vos.KillAt[0] = k
		}
		before := len(c8log)
		had := vuExists(ready)
		hadUp := vuExists(uploaded)
		killed := vos.Killable(func() { u.Run() })
		vos.Revive(0)
		if killed {
			kills++
			continue
		}
		// disposal by outcome (uninterrupted runs that made exactly one request)
		if len(c8log) == before+1 && !stray {
			switch c8log[before].code {
			case 500, 503, 0:
				vrt.Assert(vuExists(ready), "a server error or no answer leaves the report in place for a later run")
			case 400, 408, 429, 413:
				rejected = true
				vrt.Assert(!vuExists(ready), "a report answered with a client error is discarded")
				vrt.Assert(vuExists(uploaded) == hadUp, "a rejected report is not marked uploaded")
			case 200:
				vrt.Assert(vuExists(uploaded) && !vuExists(ready), "an acknowledged report is recorded as uploaded")
			}
		}
		_ = had
	}
	// a final clean run with a server that accepts
	c8server = 0
	u := c8uploader(end)
	vuPreload(u, u0)
	vuX = c8nextX()
	vos.Revive(0)
	u.Run()
	acks := c8check(week)
	for _, r := range c8log {
		if r.code >= 400 && r.code < 500 {
			rejected = true
		}
	}
	if kills == 0 && !rejected {
		vrt.Assert(acks == 1, "without crashes (and without a client-error answer) the week is eventually acknowledged exactly once")
	}
	vrt.Assert(acks <= 1, "a week is acknowledged at most once")
}

// VC08_race: two uploaders run concurrently over the same directory (every interleaving of
// their file-system/HTTP calls within the preemption bound), optionally one is killed;
// then one more run.
func VC08_race() {
	week, end := c8setup()
	c8server = vrt.Choose(2) // 0: accepts everything; 1: validates the body like the real server
	u0 := c8uploader(end)
	vuAddCountFile(u0, "f", end-7, end, vuBuilds[0], map[string]uint64{"c": 3})
	withKill := vrt.Param("kill", 0) != 0 && vrt.Bool()
	for i := 0; i < 2; i++ {
		u := c8uploader(end)
		vuPreload(u, u0)
		k := i
		vrt.Go(func() {
			if withKill && k == 0 {
				if kp := vrt.Choose(vrt.Param("killpoints", 14)) + 1; kp > 0 {
					vos.KillAt[vrt.ThreadID()] = kp
				}
			}
			vos.Killable(func() { u.Run() })
		})
	}
	vuX = 0.125
	vrt.MaxPreempt = vrt.Param("preempt", 2)
	vrt.RunThreads()
	vrt.Assert(!vrt.Deadlock, "uploaders do not block each other")
	// one more uninterrupted run, the server accepting
	c8server0 := c8server
	u := c8uploader(end)
	vuPreload(u, u0)
	vos.Revive(0)
	u.Run()
	acks := c8check(week)
	vrt.Assert(acks <= 1, "a week is acknowledged at most once")
	if !withKill {
		// the one history known to break this clause is kept apart (known_findings.json), so
		// that any other way of losing or duplicating a week is still reported
		emptyRejected := false
		for _, r := range c8log {
			if r.body == "" && r.code == 400 {
				emptyRejected = true
			}
		}
		if emptyRejected {
			vrt.Assert(acks == 1, "without crashes the uploadable week is acknowledged exactly once [history: the other uploader posted the report while it was still empty, between its creator's exclusive create and write, got a client error and discarded it]")
		} else {
			vrt.Assert(acks == 1, "without crashes the uploadable week is acknowledged exactly once")
		}
	}
	_ = c8server0
}

// VC08_weeks: two finished weeks are pending. In the first run every request gets an
// arbitrary outcome without a client error (acknowledged, server error, no answer) - so
// the older week may fail while the newer one is acknowledged; later runs meet a healthy
// server. Every week is then acknowledged exactly once, whatever the order of outcomes.
func VC08_weeks() {
	w1, end := c8setup()
	w2 := vrt.DateStr(end + 7)
	u0 := vuUploader(&telemetry.UploadConfig{}, vuInstant(end+7+3, 3600))
	vuAddCountFile(u0, "f", end-7, end, vuBuilds[0], map[string]uint64{"c": 3})
	vuAddCountFile(u0, "g", end, end+7, vuBuilds[0], map[string]uint64{"c": 4})
	outcomes := []int{200, 500, 0, 503}
	first := true
	vhttp.PostHook = func(url string, body []byte) (int, error) {
		week := url[len("http://srv/"):]
		code := 200
		if first {
			code = outcomes[vrt.Choose(len(outcomes))]
		}
		c8log = append(c8log, c8req{week: week, body: string(body), code: code, recorded: vuExists(vuDir + "/upload/" + week + ".json")})
		if code == 0 {
			return 0, errors.New("no answer")
		}
		return code, nil
	}
	for run := 0; run < 3; run++ {
		first = run == 0
		u := vuUploader(&telemetry.UploadConfig{}, vuInstant(end+7+3+int64(run), 3600))
		vuX = c8nextX()
		u.Run()
	}
	for _, w := range []string{w1, w2} {
		acks := 0
		for _, r := range c8log {
			if r.week != w {
				continue
			}
			vrt.Assert(!r.recorded, "a report recorded as uploaded is never sent again (two weeks)")
			if r.code == 200 {
				acks++
			}
		}
		vrt.Assert(acks == 1, "every uploadable week is eventually acknowledged exactly once, whatever happened to the other week")
		vrt.Assert(vuExists(vuDir+"/upload/"+w+".json") && !vuExists(vuDir+"/local/"+w+".json"), "every acknowledged week is recorded as uploaded")
	}
	for _, r := range c8log {
		vrt.Assert(r.week == w1 || r.week == w2, "requests are made for the pending weeks only")
	}
}
