package counter

// Harness for C06 (reading a counter file is total and faithful).

import (
	"golang.org/x/telemetry/internal/mmap"
	"golang.org/x/telemetry/internal/vrt"
)

const (
	c6Page   = 16 * 1024
	c6Prefix = "# telemetry/counter file v1\n"
)

func c6rd32(d []byte, i int) uint32 {
	return uint32(d[i]) | uint32(d[i+1])<<8 | uint32(d[i+2])<<16 | uint32(d[i+3])<<24
}
func c6wr32(d []byte, i int, v uint32) {
	d[i], d[i+1], d[i+2], d[i+3] = byte(v), byte(v>>8), byte(v>>16), byte(v>>24)
}
func c6wr64(d []byte, i int, v uint64) {
	c6wr32(d, i, uint32(v))
	c6wr32(d, i+4, uint32(v>>32))
}

// VC06_entry: the record accessor is total and bounds-safe for EVERY offset, header length
// and file content (all 16 KiB symbolic), and returns exactly the documented fields.
func VC06_entry() {
	size := vrt.Param("size", c6Page)
	data := vrt.BigBytes(size)
	m := &mappedFile{hdrLen: vrt.U32(), mapping: &mmap.Data{Data: data}}
	off := vrt.U32()
	name, next, v, ok := m.entryAt(off)
	if !ok {
		vrt.Reach("entry rejected")
		return
	}
	vrt.Reach("entry accepted")
	n := uint32(len(name))
	vrt.Assert(n >= 1 && n <= 0xffffff, "entryAt: accepted name length in 1..2^24-1")
	vrt.Assert(uint64(off)+16+uint64(n) <= uint64(size), "entryAt: accepted record lies inside the file")
	o := int(off)
	vrt.Assert(n == c6rd32(data, o+8)&0x00ffffff, "entryAt: length is the low 24 bits of the word at +8")
	vrt.Assert(next == c6rd32(data, o+12), "entryAt: link is the word at +12")
	vrt.Assert(v.Load() == uint64(c6rd32(data, o))|uint64(c6rd32(data, o+4))<<32, "entryAt: value is the 8 bytes at +0")
	// first and last name byte alias the file bytes at +16
	vrt.Assert(name[0] == data[o+16] && name[n-1] == data[o+16+int(n)-1], "entryAt: name aliases the bytes at +16")
}

// VC06_header: Parse on a page whose header area (28 prefix bytes, length word, metaLen
// bytes of metadata) is arbitrary and whose table is otherwise empty: never panics, never
// loops. The length word is split into classes so that the 512-bucket scan runs over
// concrete offsets: below 32 (symbolic), each value 32..32+metaLen+12 (heads overlap the
// arbitrary metadata bytes), values near and at the page size, and above the page size
// (symbolic).
func VC06_header() {
	data := make([]byte, c6Page)
	hb := vrt.Bytes(28)
	copy(data, hb)
	metaLen := vrt.Param("meta", 5)
	var hl uint32
	switch vrt.Choose(4) {
	case 0:
		hl = vrt.U32()
		vrt.Assume(hl < 32)
	case 1:
		hl = uint32(32 + vrt.Choose(metaLen+13))
	case 2:
		hl = uint32(c6Page - 8 + vrt.Choose(9))
	case 3:
		hl = vrt.U32()
		vrt.Assume(hl > c6Page)
	}
	c6wr32(data, 28, hl)
	mb := vrt.Bytes(metaLen)
	copy(data[32:], mb)
	f, err := Parse("f", data)
	if err != nil {
		vrt.Reach("header rejected")
		vrt.Assert(f == nil, "Parse: error result carries no file")
		return
	}
	vrt.Reach("header accepted")
	vrt.Assert(f != nil && f.Meta != nil && f.Count != nil, "Parse: success carries a result")
}

type c6rec struct {
	off  int
	nlen uint32
}

// c6File builds a page with a valid fixed header (hdrLen 64, empty metadata), heads for
// nb of the buckets 0, 511, 1 and ns record slots at fixed offsets. Record fields are
// symbolic; links/heads are symbolic but constrained to {0, slot offsets, wild} where a
// wild pointer is any offset whose length word (+8..+11) reads concrete zero bytes or
// that entryAt rejects as out of range. Name lengths are 0 (invalid) or in [minName,maxName].
func c6File(ns, nb, minName, maxName int) []byte {
	data := make([]byte, c6Page)
	copy(data, c6Prefix)
	const hdrLen = 64
	c6wr32(data, 28, hdrLen)
	slots := []int{2144, 2144 + 64, 2144 + 128}[:ns]
	ptr := func() uint32 {
		p := vrt.U32()
		ok := p == 0
		for _, s := range slots {
			ok = ok || p == uint32(s)
		}
		// wild: length word entirely outside every symbolic region
		symLo, symHi := uint64(hdrLen+4), uint64(hdrLen+4+2048) // table
		recLo, recHi := uint64(slots[0]), uint64(slots[ns-1]+64)
		q := uint64(p) + 8
		wild := (q+4 <= symLo || q >= symHi) && (q+4 <= recLo || q >= recHi)
		vrt.Assume(ok || wild)
		return p
	}
	for _, b := range []int{0, 511, 1}[:nb] {
		c6wr32(data, hdrLen+4+4*b, ptr())
	}
	for _, s := range slots {
		c6wr64(data, s, vrt.U64())
		lw := vrt.U32()
		l := lw & 0x00ffffff
		vrt.Assume(l == 0 || (l >= uint32(minName) && l <= uint32(maxName)))
		c6wr32(data, s+8, lw)
		c6wr32(data, s+12, ptr())
		nb := vrt.Bytes(maxName)
		copy(data[s+16:], nb)
	}
	return data
}

// VC06_chain: Parse terminates without panic for every link structure over the record
// slots (cycles, self links, wild pointers, shared tails) and every name content.
func VC06_chain() {
	ns := vrt.Param("slots", 2)
	data := c6File(ns, vrt.Param("buckets", 2), vrt.Param("min_name", 3), vrt.Param("max_name", 3))
	f, err := Parse("f", data)
	if err != nil {
		vrt.Reach("corrupt detected")
		return
	}
	vrt.Reach("parsed")
	vrt.Assert(f != nil && len(f.Count) <= ns, "Parse: at most the stored records are returned")
}

// reference ditto expansion, written from the format description:
// a line "PATH.REST" sets the current import path; a line `".REST` repeats it.
func c6expand(s string) string {
	nl := false
	for i := 0; i < len(s); i++ {
		if s[i] == '\n' {
			nl = true
		}
	}
	if !nl {
		return s
	}
	out := ""
	last := ""
	start := 0
	for i := 0; i <= len(s); i++ {
		if i < len(s) && s[i] != '\n' {
			continue
		}
		line := s[start:i]
		dot := -1
		for j := len(line) - 1; j >= 0; j-- {
			if line[j] == '.' {
				dot = j
				break
			}
		}
		if dot == 1 && line[0] == '"' {
			line = last + line[dot+1:]
		} else if dot > 0 {
			last = line[:dot+1]
		}
		if start > 0 {
			out += "\n"
		}
		out += line
		start = i + 1
	}
	return out
}

// VC06_faithful: a file written by an independent encoder of the documented layout
// (k records in buckets 0/1/511, names with arbitrary bytes) is read back exactly.
func VC06_faithful() {
	maxName := vrt.Param("max_name", 3)
	nrec := 1 + vrt.Choose(vrt.Param("max_rec", 2))
	data := make([]byte, c6Page)
	copy(data, c6Prefix)
	meta := "A: b\nC: d\n"
	hdrLen := (28 + 4 + len(meta) + 31) / 32 * 32
	c6wr32(data, 28, uint32(hdrLen))
	copy(data[32:], meta)
	buckets := []int{0, 1, 511}
	limit := hdrLen + 4 + 2048
	limit = (limit + 31) / 32 * 32
	names := make([]string, nrec)
	vals := make([]uint64, nrec)
	for i := 0; i < nrec; i++ {
		n := 1 + vrt.Choose(maxName)
		names[i] = vrt.String(n)
		vals[i] = vrt.U64()
		b := buckets[vrt.Choose(3)]
		vrt.Assume(hash(names[i]) == uint32(b)) // the format's hash decides the bucket
		for j := 0; j < i; j++ {
			vrt.Assume(names[j] != names[i])
			vrt.Assume(c6expand(names[j]) != c6expand(names[i]))
		}
		off := limit
		limit += (16 + n + 31) / 32 * 32
		c6wr64(data, off, vals[i])
		c6wr32(data, off+8, uint32(n)|0xff000000)
		headOff := hdrLen + 4 + 4*b
		c6wr32(data, off+12, c6rd32(data, headOff)) // push front
		copy(data[off+16:], names[i])
		c6wr32(data, headOff, uint32(off))
	}
	c6wr32(data, hdrLen, uint32(limit))
	f, err := Parse("f", data)
	vrt.Assert(err == nil, "Parse: accepts a well-formed file")
	if err != nil {
		return
	}
	vrt.Assert(len(f.Meta) == 2 && f.Meta["A"] == "b" && f.Meta["C"] == "d", "Parse: metadata key/values")
	vrt.Assert(len(f.Count) == nrec, "Parse: one entry per stored record")
	for i := 0; i < nrec; i++ {
		v, ok := f.Count[c6expand(names[i])]
		vrt.Assert(ok && v == vals[i], "Parse: stored value under the expanded name")
	}
}

// VC06_shapes: well-formed files at the edges of the format: metadata that fills the header
// exactly (no padding between metadata and the allocation limit), and a counter name of the
// maximum length (4096 bytes, what a truncated stack counter gets).
func VC06_shapes() {
	data := make([]byte, c6Page)
	copy(data, c6Prefix)
	var meta string
	var a string
	full := vrt.Bool()
	if full {
		a = vrt.String(1)
		vrt.Assume(a[0] != '\n' && a[0] != 0 && a[0] != ' ' && a[0] != '\t' && a[0] != '\r' && a[0] != '\v' && a[0] != '\f' && a[0] != 0x85 && a[0] != 0xA0 && a[0] < 0x80)
		a += "xxxxxxxxxxxxxxxxxxxxxx"
		meta = "A: " + a + "\nC: d\n" // 32 bytes: 28+4+32 = 64, no padding
	} else {
		a = "b"
		meta = "A: b\nC: d\n"
	}
	hdrLen := (28 + 4 + len(meta) + 31) / 32 * 32
	c6wr32(data, 28, uint32(hdrLen))
	copy(data[32:], meta)
	limit := (hdrLen + 4 + 2048 + 31) / 32 * 32
	n := []int{1, 4095, 4096}[vrt.Choose(3)]
	nb := make([]byte, n)
	for i := range nb {
		nb[i] = 'a'
	}
	name := string(nb)
	val := vrt.U64()
	off := limit
	limit += (16 + n + 31) / 32 * 32
	c6wr64(data, off, val)
	c6wr32(data, off+8, uint32(n)|0xff000000)
	headOff := hdrLen + 4 + 4*int(hash(name))
	c6wr32(data, headOff, uint32(off))
	copy(data[off+16:], name)
	c6wr32(data, hdrLen, uint32(limit))
	f, err := Parse("f", data)
	vrt.Assert(err == nil, "Parse: accepts a well-formed file (full header / longest name)")
	if err != nil {
		return
	}
	vrt.Assert(len(f.Meta) == 2 && f.Meta["A"] == a && f.Meta["C"] == "d", "Parse: metadata key/values when the header has no padding")
	v, ok := f.Count[name]
	vrt.Assert(len(f.Count) == 1 && ok && v == val, "Parse: a name of the maximum length is read back")
}

// VC06_stackname: a well-formed file holding one stack counter whose encoded name uses
// ditto marks after an import path of one or two characters: Parse returns it under the
// expanded name.
func VC06_stackname() {
	data := make([]byte, c6Page)
	copy(data, c6Prefix)
	meta := "A: b\n"
	hdrLen := (28 + 4 + len(meta) + 31) / 32 * 32
	c6wr32(data, 28, uint32(hdrLen))
	copy(data[32:], meta)
	p := vrt.String(1 + vrt.Choose(2))
	for i := 0; i < len(p); i++ {
		vrt.Assume(p[i] >= 'a' && p[i] <= 'e')
	}
	name := "s\nx/y.a:1\n" + p + ".f:1\n\".g:2\n\".h:3"
	want := "s\nx/y.a:1\n" + p + ".f:1\n" + p + ".g:2\n" + p + ".h:3"
	n := len(name)
	val := vrt.U64()
	off := (hdrLen + 4 + 2048 + 31) / 32 * 32
	c6wr64(data, off, val)
	c6wr32(data, off+8, uint32(n)|0xff000000)
	b := vrt.ConcreteU32(hash(name)) // the bucket is case-split
	c6wr32(data, hdrLen+4+4*int(b), uint32(off))
	copy(data[off+16:], name)
	c6wr32(data, hdrLen, uint32(off+(16+n+31)/32*32))
	f, err := Parse("f", data)
	vrt.Assert(err == nil, "Parse: accepts a well-formed file with a stack counter")
	if err != nil {
		return
	}
	v, ok := f.Count[want]
	vrt.Assert(len(f.Count) == 1 && ok && v == val, "Parse: a stack counter is returned under its expanded name")
}
