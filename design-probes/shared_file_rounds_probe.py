# Throwaway feasibility probe (NOT part of any check): round-bounded encoding with an SMT ARRAY as the
# shared mapped file, on a simplified hand transcription of mappedFile.lookup/newCounter/add.
# Simplifications: word-granular memory (aligned 32-bit words), names are one symbolic byte, 32-bit values,
# fixed header length, no extension/remap. usage: c04r.py <procs> <rounds> <unwind>
import sys, time
from z3 import *
P=int(sys.argv[1]); R=int(sys.argv[2]); U=int(sys.argv[3]); RW_=3
A=32
bv=lambda x: BitVecVal(x,A)
HDR=96; LIMIT=HDR; HASH=HDR+4; TABLE_END=HDR+4+4*512
F=BoolVal(False); T_=BoolVal(True)
CONS=[]
def fnv(b):  # hash of a 1-byte name, as in file.go
    h=bv(2166136261); h=(h ^ ZeroExt(24,b))*bv(16777619)
    return URem(h ^ LShR(h,16), bv(512))
def rnd(x,u): return (x+bv(u-1)) & ~bv(u-1)
def place(limit):
    limit=If(limit==0,bv(TABLE_END),limit)
    n=bv(32)            # round(16+1,32)
    start=rnd(limit,32)
    start=If(UDiv(start,bv(16384))!=UDiv(start+n,bv(16384)),rnd(limit,16384),start)
    return start,start+n
def fnv_c(b):
    h=2166136261; h=((h^b)*16777619)&0xffffffff; return (h^(h>>16))%512
POOL=None
for a in range(1,256):
    for b in range(a+1,256):
        if fnv_c(a)==fnv_c(b): POOL=[a,b]; break
    if POOL: break
POOL.append(next(c for c in range(1,256) if fnv_c(c)!=fnv_c(POOL[0])))
S1=(TABLE_END+31)&~31
CELLS=[LIMIT]+sorted(set(HASH+4*fnv_c(x) for x in POOL))+[S1+32*k+f for k in range(int(sys.argv[1])) for f in (0,8,12,16)]
class Th:
    def __init__(s,tid,first,prev):
        s.tid=tid; s.n=0; s.flags={}; s.last=BitVecVal(0,RW_); s.trace=[]
        if first:
            s.G=[{c:BitVec('G_%d_%d'%(r,c),A) for c in CELLS} for r in range(R)]
        else:
            s.G=[dict(d) for d in prev.cur]
        s.cur=[dict(d) for d in s.G]
    def _rho(s,g):
        rho=BitVec('rho_%d_%d'%(s.tid,s.n),RW_); s.n+=1
        CONS.append(Implies(g,And(UGE(rho,s.last),ULT(rho,R)))); s.last=If(g,rho,s.last); return rho
    def _read(s,rho,addr):
        def sel(d):
            v=bv(0)
            for c in CELLS: v=If(addr==c,d[c],v)
            return v
        v=sel(s.cur[R-1])
        for r in range(R-2,-1,-1): v=If(rho==r,sel(s.cur[r]),v)
        return v
    def _write(s,g,rho,addr,val):
        s.flag('wild_address',And(g,Not(Or([addr==c for c in CELLS]))))
        for r in range(R):
            for c in CELLS: s.cur[r][c]=If(And(g,rho==r,addr==c),val,s.cur[r][c])
    def load(s,g,addr):
        rho=s._rho(g); s.flag('wild_address',And(g,Not(Or([addr==c for c in CELLS])))); v=s._read(rho,addr); s.trace.append((g,rho,'R',addr,v,None)); return v
    def store(s,g,addr,val):
        rho=s._rho(g); s._write(g,rho,addr,val); s.trace.append((g,rho,'W',addr,None,val))
    def cas(s,g,addr,old,new):
        rho=s._rho(g); v=s._read(rho,addr); ok=(v==old); s._write(And(g,ok),rho,addr,new); s.trace.append((g,rho,'RW',addr,v,If(ok,new,v))); return ok
    def flag(s,name,g): s.flags[name]=Or(s.flags.get(name,F),g)

def entryAt(t,g,off):
    bad=Or(ULT(off,bv(HDR+4)),UGT(off+16,bv(16384)))
    nl=t.load(And(g,Not(bad)),off+8) & bv(0xffffff)
    bad2=Or(bad,nl==0)
    nm=t.load(And(g,Not(bad2)),off+16)
    nx=t.load(And(g,Not(bad2)),off+12)
    return nl,nm,nx,Not(bad2)
def walk(t,g,start,stop,name):
    """follow chain from start until stop; returns (found_guard, found_off, corrupt_guard, exhausted_guard)"""
    off=start; act=g; found=F; foff=bv(0); corrupt=F
    for i in range(U+1):
        act=And(act,off!=stop)
        nl,nm,nx,ok=entryAt(t,act,off)
        corrupt=Or(corrupt,And(act,Not(ok)))
        hit=And(act,ok,nl==1,nm==ZeroExt(24,name))
        found=Or(found,hit); foff=If(hit,off,foff)
        act=And(act,ok,Not(hit)); off=If(act,nx,off)
    t.flag('unwind',And(act,off!=stop))
    return found,foff,corrupt
def newCounter(t,name):
    headOff=bv(HASH)+fnv(name)*4
    head=t.load(T_,headOff)
    found,foff,corrupt=walk(t,T_,head,bv(0),name)
    t.flag('corrupt',corrupt)
    g=And(Not(found),Not(corrupt))
    # reserve
    act=g; start=bv(0); res=F
    for i in range(U):
        limit=t.load(act,bv(LIMIT)); st,en=place(limit)
        ok=t.cas(act,bv(LIMIT),limit,en)
        start=If(And(act,ok),st,start); res=Or(res,And(act,ok)); act=And(act,Not(ok))
    t.flag('unwind',act)
    g=res
    t.store(g,start+16,ZeroExt(24,name))
    t.store(g,start+8,bv(1|0xff000000))
    # link
    act=g; done=F; voff=If(found,foff,start)
    for i in range(U):
        t.store(act,start+12,head)
        ok=t.cas(act,headOff,head,start)
        done=Or(done,And(act,ok))
        fail=And(act,Not(ok))
        old=head; nh=t.load(fail,headOff)
        f2,foff2,c2=walk(t,fail,nh,old,name)
        t.flag('corrupt',c2)
        dup=And(fail,f2)
        t.store(dup,start+12,bv(0xffffffff))
        voff=If(dup,foff2,voff); done=Or(done,dup)
        head=If(fail,nh,head); act=And(fail,Not(f2),Not(c2))
    t.flag('unwind',act)
    return voff,Or(found,done)
def add(t,g,voff,n):
    act=g
    for i in range(U):
        old=t.load(act,voff); ok=t.cas(act,voff,old,old+n); act=And(act,Not(ok))
    t.flag('unwind',act)

t0=time.time(); ths=[]; names=[]; amts=[]; prev=None
for i in range(P):
    t=Th(i+1,i==0,prev); nm=BitVec('name%d'%i,8); n=BitVec('amt%d'%i,A); names.append(nm); amts.append(n)
    CONS.append(And(n>0,ULT(n,bv(1000)),Or([nm==x for x in POOL])))
    voff,ok=newCounter(t,nm); add(t,ok,voff,n); ths.append(t); prev=t
print('events per process',[t.n for t in ths],'rounds',R)
# initial file: all zero (fresh), round wrap-around
for c in CELLS:
    CONS.append(ths[0].G[0][c]==0)
    for r in range(R-1): CONS.append(ths[0].G[r+1][c]==ths[-1].cur[r][c])
class Fin:
    def __init__(s,d): s.d=d
def Select(f,addr):
    v=bv(0)
    for c in CELLS: v=If(addr==c,f.d[c],v)
    return v
final=Fin(ths[-1].cur[R-1])
# independent decode of the final file for each name: walk its bucket (<= P records)
def decode(name):
    off=Select(final,bv(HASH)+fnv(name)*4); cnt=bv(0); val=bv(0); bad=F
    for i in range(P+1):
        live=off!=0
        nl=Select(final,off+8)&bv(0xffffff); nm=Select(final,off+16); nx=Select(final,off+12)
        bad=Or(bad,And(live,Or(ULT(off,bv(TABLE_END)),off&bv(31)!=0,nl==0,UGE(off+32,Select(final,bv(LIMIT))+1))))
        hit=And(live,nl==1,nm==ZeroExt(24,name))
        cnt=If(hit,cnt+1,cnt); val=If(hit,Select(final,off),val); off=If(live,nx,off)
    bad=Or(bad,off!=0)
    return cnt,val,bad
bad={}
for t in ths:
    for k,g in t.flags.items(): bad[k]=Or(bad.get(k,F),g)
nobad=Not(Or(list(bad.values())))
wrong=F
for i in range(P):
    cnt,val,b=decode(names[i])
    want=sum([If(names[j]==names[i],amts[j],bv(0)) for j in range(P)][1:],If(names[0]==names[i],amts[0],bv(0)))
    wrong=Or(wrong,b,cnt!=1,val!=want)
bad['final_file_wrong']=And(nobad,wrong)
bad['reach_collision']=And(nobad,names[0]!=names[1],fnv(names[0])==fnv(names[1]))   # vacuity witness: must be sat
print('encode %.1fs'%(time.time()-t0))
for name in ['reach_collision','wild_address','corrupt','final_file_wrong','unwind']:
    s=Solver(); s.add(CONS); s.add(bad[name]); t=time.time(); r=s.check(); print(name,r,'%.1fs'%(time.time()-t)); sys.stdout.flush()
