# Throwaway prototype: Lal-Reps round-robin (context-bounded) encoding, merged per-thread execution.
# usage: c03r.py <S1|S3> <unwind> <nadders> <rounds>
import sys, time
from z3 import *
W=64
READERS=(1<<30)-1; HAVE=1<<30; SHIFT=31; MAXX=(1<<33)-1
bv=lambda x: BitVecVal(x,W)
def readers(b): return b & bv(READERS)
def locked(b): return readers(b)==bv(READERS)
def havePtr(b): return (b & bv(HAVE))!=0
def extra(b): return LShR(b,SHIFT)
def clearExtra(b): return b & bv((1<<SHIFT)-1)
def addExtra(b,n):
    x=extra(b); s=x+n
    nx=If(Or(ULT(s,x),UGT(s,bv(MAXX))),bv(MAXX),s)
    return clearExtra(b)|(nx<<SHIFT)
F=BoolVal(False); T_=BoolVal(True)
U=int(sys.argv[2]); R=int(sys.argv[4]); RW_=3
LOCS=['state','ptr_m','current','live1','live2','cell']
CONS=[]
class Th:
    def __init__(s,tid):
        s.tid=tid; s.n=0; s.flags={}; s.last=BitVecVal(0,RW_)
        s.G={l:[BitVec('G_%d_%s_%d'%(tid,l,r),W) for r in range(R)] for l in LOCS}
        s.cur={l:list(s.G[l]) for l in LOCS}
        s.trace=[]
    def _rho(s,g,loc,kind):
        rho=BitVec('rho_%d_%d'%(s.tid,s.n),RW_); s.n+=1
        CONS.append(Implies(g,And(UGE(rho,s.last),ULT(rho,R))))
        s.last=If(g,rho,s.last); return rho
    def _read(s,loc,rho):
        v=s.cur[loc][R-1]
        for r in range(R-2,-1,-1): v=If(rho==r,s.cur[loc][r],v)
        return v
    def _write(s,g,loc,rho,val):
        for r in range(R): s.cur[loc][r]=If(And(g,rho==r),val,s.cur[loc][r])
    def load(s,g,loc):
        rho=s._rho(g,loc,'R'); v=s._read(loc,rho); s.trace.append((g,rho,'R',loc,v,None)); return v
    def store(s,g,loc,val):
        rho=s._rho(g,loc,'W'); s._write(g,loc,rho,val); s.trace.append((g,rho,'W',loc,None,val))
    def cas(s,g,loc,old,new):
        rho=s._rho(g,loc,'RW'); v=s._read(loc,rho); ok=(v==old); s._write(And(g,ok),loc,rho,new); s.trace.append((g,rho,'RW',loc,v,If(ok,new,v))); return ok
    def flag(s,name,g): s.flags[name]=Or(s.flags.get(name,F),g)

def c_add(t,g,n):
    # c.ptr.count deref: plain read of ptr, then liveness of that mapping
    m=t.load(g,'ptr_m')
    t.flag('nilptr',And(g,m==0))
    g=And(g,m!=0)
    l1=t.load(And(g,m==1),'live1'); l2=t.load(And(g,m==2),'live2')
    t.flag('fault',Or(And(g,m==1,l1==0),And(g,m==2,l2==0)))
    g=And(g,Or(And(m==1,l1!=0),And(m==2,l2!=0)))
    act=g
    for i in range(U):
        old=t.load(act,'cell'); s_=old+n; s_=If(ULT(s_,old),bv(2**64-1),s_)
        ok=t.cas(act,'cell',old,s_)
        act=And(act,Not(ok))
    t.flag('unwind',act)

def releaseLock(t,g,state):
    act=g
    for i in range(U):
        # if !havePtr: CAS setHavePtr
        nh=And(act,Not(havePtr(state)))
        ok=t.cas(nh,'state',state,state|bv(HAVE))
        fail1=And(nh,Not(ok))
        st1=If(nh,state|bv(HAVE),state)
        g1=And(act,Not(fail1))
        gset=And(nh,ok)
        t.store(gset,'ptr_m',bv(0))
        glk=And(gset,extra(st1)!=0)
        cur=t.load(glk,'current')
        t.store(glk,'ptr_m',cur)
        # flush
        ex=extra(st1)
        gx=And(g1,ex!=0)
        pm=t.load(gx,'ptr_m')
        gfl=And(gx,pm!=0)
        ok2=t.cas(gfl,'state',st1,clearExtra(st1))
        fail2=And(gfl,Not(ok2))
        st2=If(gfl,clearExtra(st1),st1)
        c_add(t,And(gfl,ok2),ex)
        g2=And(g1,Not(fail2))
        ok3=t.cas(g2,'state',st2,st2&~bv(READERS))
        fail3=And(g2,Not(ok3))
        anyfail=Or(fail1,fail2,fail3)
        ns=t.load(anyfail,'state')
        state=If(anyfail,ns,state)
        act=anyfail
    t.flag('unwind',act)

def releaseReader(t,g,state):
    act=g; rl_g=F; rl_state=bv(0)
    for i in range(U):
        last=And(readers(state)==1,Not(havePtr(state)))
        ga=And(act,last); ok=t.cas(ga,'state',state,state|bv(READERS))
        rl_g=Or(rl_g,And(ga,ok)); rl_state=If(And(ga,ok),state|bv(READERS),rl_state)
        gb=And(act,Not(last)); ok2=t.cas(gb,'state',state,state-1)
        fail=Or(And(ga,Not(ok)),And(gb,Not(ok2)))
        ns=t.load(fail,'state'); state=If(fail,ns,state); act=fail
    t.flag('unwind',act)
    releaseLock(t,rl_g,rl_state)     # exit block shared by all iterations

def Add(t,n):
    state=t.load(T_,'state'); act=T_
    rd_g=F; rd_state=bv(0); lk_g=F; lk_state=bv(0)
    for i in range(U):
        c1=And(Not(locked(state)),havePtr(state)); c2=locked(state); c3=And(Not(c1),Not(c2))
        g1=And(act,c1); ok1=t.cas(g1,'state',state,state+1)
        rd_g=Or(rd_g,And(g1,ok1)); rd_state=If(And(g1,ok1),state+1,rd_state)
        g2=And(act,c2,Not(c1)); ok2=t.cas(g2,'state',state,addExtra(state,n))
        g3=And(act,c3); ns3=addExtra(state,n)|bv(READERS); ok3=t.cas(g3,'state',state,ns3)
        lk_g=Or(lk_g,And(g3,ok3)); lk_state=If(And(g3,ok3),ns3,lk_state)
        fail=Or(And(g1,Not(ok1)),And(g2,Not(ok2)),And(g3,Not(ok3)))
        ns=t.load(fail,'state'); state=If(fail,ns,state); act=fail
    t.flag('unwind',act)
    # reader section (shared exit)
    pm=t.load(rd_g,'ptr_m')
    gnil=And(rd_g,pm==0); st=rd_state; a2=gnil
    for i in range(U):
        ok=t.cas(a2,'state',st,addExtra(st,n))
        st=If(And(a2,ok),addExtra(st,n),st)
        f2=And(a2,Not(ok)); ns=t.load(f2,'state'); st=If(f2,ns,st); a2=f2
    t.flag('unwind',a2)
    c_add(t,And(rd_g,pm!=0),n)
    releaseReader(t,rd_g,st)
    releaseLock(t,lk_g,lk_state)

def Extend(t):
    t.store(T_,'current',bv(2))
    # invalidate
    act=T_
    for i in range(U):
        st=t.load(act,'state'); h=And(act,havePtr(st)); ok=t.cas(h,'state',st,st&~bv(HAVE)); act=And(h,Not(ok))
    t.flag('unwind',act)
    # refresh
    act=T_; rl_g=F; rl_state=bv(0)
    for i in range(U):
        st=t.load(act,'state'); go=And(act,Not(Or(havePtr(st),readers(st)!=0,extra(st)==0)))
        ok=t.cas(go,'state',st,st|bv(READERS)); rl_g=Or(rl_g,And(go,ok)); rl_state=If(And(go,ok),st|bv(READERS),rl_state); act=And(go,Not(ok))
    t.flag('unwind',act)
    releaseLock(t,rl_g,rl_state)
    t.store(T_,'live1',bv(0))


scenario=sys.argv[1]; NA=int(sys.argv[3])
t0=time.time(); ths=[]; ns_=[]
for i in range(NA):
    t=Th(i+1); n=BitVec('n%d'%i,W); ns_.append(n); Add(t,n); ths.append(t)
if scenario=='S3':
    t=Th(NA+1); Extend(t); ths.append(t)
print('events per thread',[t.n for t in ths],'rounds',R)
init=dict([('state',bv(HAVE)),('ptr_m',bv(1)),('current',bv(1)),('live1',bv(1)),('live2',bv(1)),('cell',bv(0))])
for l in LOCS:
    CONS.append(ths[0].G[l][0]==init[l])
    for r in range(R):
        for a,b in zip(ths,ths[1:]): CONS.append(a.cur[l][r]==b.G[l][r])
        if r+1<R: CONS.append(ths[-1].cur[l][r]==ths[0].G[l][r+1])
for n in ns_: CONS.append(And(n>0,ULT(n,bv(1<<20))))
fc=ths[-1].cur['cell'][R-1]; fs=ths[-1].cur['state'][R-1]
bad={}
for t in ths:
    for k,g in t.flags.items(): bad[k]=Or(bad.get(k,F),g)
nobad=Not(Or(list(bad.values())))
bad['lost_or_dup']=And(nobad, fc+extra(fs)!=sum(ns_[1:],ns_[0]))
bad['lock_left']=And(nobad, readers(fs)!=0)
print('encode %.1fs'%(time.time()-t0))
for name in ['nilptr','fault','lost_or_dup','lock_left','unwind']:
    if name not in bad: continue
    s=SolverFor('QF_BV'); s.add(CONS); s.add(bad[name]); t=time.time(); r=s.check(); print(name,r,'%.1fs'%(time.time()-t)); sys.stdout.flush()
    if r==sat and name!='unwind':
        m=s.model(); rows=[]
        for th in ths:
            for i,(g,rho,k,loc,rv,wv) in enumerate(th.trace):
                if is_true(m.eval(g,model_completion=True)):
                    rows.append((m.eval(rho,model_completion=True).as_long(),th.tid,i,k,loc,rv,wv))
        for (ro,tid,i,k,loc,rv,wv) in sorted(rows):
            print('   round %d t%d %-3s %-8s %s %s'%(ro,tid,k,loc, hex(m.eval(rv,model_completion=True).as_long()) if rv is not None else '', '-> '+hex(m.eval(wv,model_completion=True).as_long()) if wv is not None else ''))
