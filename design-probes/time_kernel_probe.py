import sys, time
from z3 import *
W=64
def bv(x): return BitVecVal(x,W)
SPD=86400; D400=146097; D100=36524; D4=1461
AZY=-292277022399
daysBefore=[0,31,59,90,120,151,181,212,243,273,304,334,365]
def tbl(i):
    e=bv(0)
    for k in reversed(range(13)):
        e=If(i==k,bv(daysBefore[k]),e)
    return e
def isLeap(y):
    return And(SRem(y,bv(4))==0, Or(SRem(y,bv(100))!=0, SRem(y,bv(400))==0))
def absDate(ab):
    d=UDiv(ab,bv(SPD))
    n=UDiv(d,bv(D400)); y=400*n; d=d-D400*n
    n=UDiv(d,bv(D100)); n=n-LShR(n,2); y=y+100*n; d=d-D100*n
    n=UDiv(d,bv(D4)); y=y+4*n; d=d-D4*n
    n=UDiv(d,bv(365)); n=n-LShR(n,2); y=y+n; d=d-365*n
    year=y+bv(AZY)
    day=d
    leap=isLeap(year)
    # leap handling
    isLeapDay=And(leap, day==59)
    day2=If(And(leap, day>59), day-1, day)
    month=day2/31  # signed div, positive
    end=tbl(month+1)
    m2=If(day2>=end, month+1, month)
    begin=If(day2>=end, end, tbl(month))
    mm=m2+1
    dd=day2-begin+1
    return year, If(isLeapDay,bv(2),mm), If(isLeapDay,bv(29),dd)
def daysSinceEpoch(year):
    y=year-bv(AZY)
    n=UDiv(y,bv(400)); y=y-400*n; d=D400*n
    n=UDiv(y,bv(100)); y=y-100*n; d=d+D100*n
    n=UDiv(y,bv(4)); y=y-4*n; d=d+D4*n
    d=d+365*y
    return d
def norm(hi,lo,base):
    b=bv(base)
    n1=(-lo-1)/b+1
    hi1=If(lo<0,hi-n1,hi); lo1=If(lo<0,lo+n1*b,lo)
    n2=lo1/b
    hi2=If(lo1>=b,hi1+n2,hi1); lo2=If(lo1>=b,lo1-n2*b,lo1)
    return hi2,lo2
def Date(year,month,day):
    m=month-1
    year,m=norm(year,m,12)
    month=m+1
    # sec,min,hour all zero -> norm(day,0,24): lo=0 -> unchanged
    d=daysSinceEpoch(year)
    d=d+tbl(month-1)
    d=If(And(isLeap(year),month>=3),d+1,d)
    d=d+(day-1)
    ab=d*SPD
    return ab
ab=BitVec('abs',W); incr=BitVec('incr',W)
# abs for year 2000..2100: unix + (1969*365+1969/4-1969/100+1969/400)*86400 + ... use internal: unixToInternal+internalToAbsolute
UTA=(1969*365+1969//4-1969//100+1969//400)*SPD  # unixToInternal
ITA=-(AZY*365.2425)  # placeholder not used
absoluteToInternal=int((AZY-1)*365.2425*SPD)
# per Go: absoluteToInternal int64 = (absoluteZeroYear - internalYear) * 365.2425 * secondsPerDay ; internalYear=1
internalToAbsolute=-absoluteToInternal
unixToInternal=UTA
unix=BitVec('unix',W)
s=Solver()
s.add(unix>=946684800, unix<4102444800)  # 2000..2100
s.add(ab==unix+bv(unixToInternal+internalToAbsolute))
s.add(incr>=1, incr<=7)
y,m,d=absDate(ab)
begin=Date(y,m,d)
end=Date(y,m,d+incr)
dayfloor=UDiv(ab,bv(SPD))*SPD
# weekday of end
prop=And(begin==dayfloor, end==dayfloor+incr*SPD)
s.add(Not(prop))
# usage: time_kernel_probe.py            -> solve with the z3 Python API
#        time_kernel_probe.py --dump F   -> write SMT-LIB2 to F (for z3 / cvc5 --solve-bv-as-int=sum)
if '--dump' in sys.argv:
    open(sys.argv[sys.argv.index('--dump')+1],'w').write("(set-logic QF_BV)\n"+s.to_smt2().replace("(set-info :status unknown)",""))
else:
    t=time.time(); r=s.check(); print(r, time.time()-t)
    if r==sat: print(s.model())
