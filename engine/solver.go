package main

import (
	"bufio"
	"fmt"
	"io"
	"os"
	"os/exec"
	"strconv"
	"strings"
	"time"
)

type SolverStats struct {
	CrossChecked, CrossAgree, CrossDisagree, CrossInconclusive int
	Queries int
	Sat     int
	Unsat   int
	Unknown int
	Errors  int
	Time    time.Duration
}

// Solver is one long-lived `z3 -in` process. Terms are introduced once as
// define-fun macros at the base level; queries use push/assert/check-sat/pop.
type Solver struct {
	tt       *TermTable
	cmd      *exec.Cmd
	in       io.WriteCloser
	out      *bufio.Reader
	defined  []bool
	declared map[string]bool
	Stats    SolverStats
	Timeout  int // ms per query
	bin      string
	log      io.Writer
	nq       int
	prefix   []*Term // currently asserted path-condition prefix (one push level each)
	inPrefix bool
	lvDefs   [][]int    // term ids defined at each push level (index 0 = base)
	lvDecls  [][]string // names declared at each push level
	CrossEvery int // re-decide every n-th query with two other solvers (0: off)
	CrossMax   int
}

func (s *Solver) push() {
	s.send("(push 1)\n")
	s.lvDefs = append(s.lvDefs, nil)
	s.lvDecls = append(s.lvDecls, nil)
}

func (s *Solver) pop(n int) {
	if n <= 0 {
		return
	}
	s.send(fmt.Sprintf("(pop %d)\n", n))
	for i := 0; i < n && len(s.lvDefs) > 1; i++ {
		if true { // global declarations: definitions survive pop
			last := len(s.lvDefs) - 1
			s.lvDefs = s.lvDefs[:last]
			s.lvDecls = s.lvDecls[:last]
			continue
		}
		last := len(s.lvDefs) - 1
		for _, id := range s.lvDefs[last] {
			s.defined[id] = false
		}
		for _, nm := range s.lvDecls[last] {
			delete(s.declared, nm)
		}
		s.lvDefs = s.lvDefs[:last]
		s.lvDecls = s.lvDecls[:last]
	}
}

func NewSolver(tt *TermTable, bin string, timeoutMs int) (*Solver, error) {
	s := &Solver{tt: tt, declared: map[string]bool{}, Timeout: timeoutMs, bin: bin}
	if err := s.start(); err != nil {
		return nil, err
	}
	return s, nil
}

func (s *Solver) start() error {
	var cmd *exec.Cmd
	if strings.Contains(s.bin, "cvc5") {
		cmd = exec.Command(s.bin, "--incremental", "--lang=smt2", "--produce-models", "--global-declarations", fmt.Sprintf("--tlimit-per=%d", s.Timeout))
	} else {
		cmd = exec.Command(s.bin, "-in")
	}
	in, err := cmd.StdinPipe()
	if err != nil {
		return err
	}
	out, err := cmd.StdoutPipe()
	if err != nil {
		return err
	}
	cmd.Stderr = os.Stderr
	if err := cmd.Start(); err != nil {
		return err
	}
	s.cmd = cmd
	s.in = in
	s.out = bufio.NewReaderSize(out, 1<<20)
	s.defined = nil
	s.prefix = nil
	s.inPrefix = false
	s.lvDefs = [][]int{nil}
	s.lvDecls = [][]string{nil}
	s.declared = map[string]bool{}
	if strings.Contains(s.bin, "cvc5") {
		s.send("(set-logic ALL)\n")
	} else {
		s.send("(set-option :global-decls true)\n")
		s.send("(set-option :produce-models true)\n")
		s.send(fmt.Sprintf("(set-option :timeout %d)\n", s.Timeout))
	}
	return nil
}

func (s *Solver) Close() {
	if s.cmd != nil {
		s.in.Close()
		s.cmd.Process.Kill()
		s.cmd.Wait()
		s.cmd = nil
	}
}

func (s *Solver) send(str string) {
	if s.log != nil {
		io.WriteString(s.log, str)
	}
	io.WriteString(s.in, str)
}

// emit writes declarations/definitions needed for t.
func (s *Solver) emit(t *Term, sb *strings.Builder, defined func(id int) bool, setDefined func(id int), declared map[string]bool) {
	type fr struct {
		t *Term
		i int
	}
	stack := []fr{{t, 0}}
	for len(stack) > 0 {
		f := &stack[len(stack)-1]
		x := f.t
		if x.Op == OConst {
			stack = stack[:len(stack)-1]
			continue
		}
		if x.Op == OVar {
			if !declared[x.Name] {
				declared[x.Name] = true
				fmt.Fprintf(sb, "(declare-const |%s| %s)\n", x.Name, x.S)
			}
			stack = stack[:len(stack)-1]
			continue
		}
		if defined(x.ID) {
			stack = stack[:len(stack)-1]
			continue
		}
		if f.i < len(x.Args) {
			a := x.Args[f.i]
			f.i++
			stack = append(stack, fr{a, 0})
			continue
		}
		if x.Op == OApp {
			if !declared["uf:"+x.Name] {
				declared["uf:"+x.Name] = true
				var as []string
				for _, a := range x.Args {
					as = append(as, a.S.String())
				}
				fmt.Fprintf(sb, "(declare-fun |%s| (%s) %s)\n", x.Name, strings.Join(as, " "), x.S)
			}
		}
		fmt.Fprintf(sb, "(define-fun t%d () %s %s)\n", x.ID, x.S, body(x))
		setDefined(x.ID)
		stack = stack[:len(stack)-1]
	}
}

func (s *Solver) define(ts ...*Term) {
	var sb strings.Builder
	lv := 0 // global declarations
	before := len(s.declared)
	var declNames map[string]bool
	if lv > 0 {
		declNames = map[string]bool{}
		for k := range s.declared {
			declNames[k] = true
		}
	}
	for _, t := range ts {
		s.emit(t, &sb, func(id int) bool { return id < len(s.defined) && s.defined[id] }, func(id int) {
			for len(s.defined) <= id {
				s.defined = append(s.defined, false)
			}
			s.defined[id] = true
			if lv > 0 {
				s.lvDefs[lv] = append(s.lvDefs[lv], id)
			}
		}, s.declared)
	}
	if lv > 0 && len(s.declared) != before {
		for k := range s.declared {
			if !declNames[k] {
				s.lvDecls[lv] = append(s.lvDecls[lv], k)
			}
		}
	}
	if sb.Len() > 0 {
		s.send(sb.String())
	}
}

func (s *Solver) readLine() (string, error) {
	line, err := s.out.ReadString('\n')
	return strings.TrimSpace(line), err
}

// Check decides satisfiability of the conjunction of assumps.
// Returns "sat", "unsat" or "unknown". If wantModel and sat, the solver stays in
// the pushed scope so that Values can be called; the caller must call EndModel.
func (s *Solver) Check(assumps []*Term, keepScope bool, want ...*Term) string {
	s.Stats.Queries++
	s.nq++
	for _, a := range assumps {
		if a.IsFalse() {
			s.Stats.Unsat++
			if keepScope {
				s.push()
			}
			return "unsat"
		}
	}
	t0 := time.Now()
	s.define(assumps...)
	s.define(want...)
	var sb strings.Builder
	s.push()
	for _, a := range assumps {
		if a.IsTrue() {
			continue
		}
		sb.WriteString("(assert ")
		sb.WriteString(ref(a))
		sb.WriteString(")\n")
	}
	sb.WriteString("(check-sat)\n")
	s.send(sb.String())
	res := "unknown"
	// watchdog: a solver that ignores its own time limit is killed (the read below then
	// fails and the query counts as unknown)
	proc := s.cmd.Process
	wd := time.AfterFunc(time.Duration(s.Timeout)*time.Millisecond*2+10*time.Second, func() { proc.Kill() })
	defer wd.Stop()
	for {
		line, err := s.readLine()
		if err != nil {
			// solver died: restart
			s.Stats.Errors++
			s.Close()
			s.start()
			s.Stats.Time += time.Since(t0)
			s.Stats.Unknown++
			if keepScope {
				s.push()
			}
			return "unknown"
		}
		if line == "" {
			continue
		}
		if strings.HasPrefix(line, "(error") {
			s.Stats.Errors++
			fmt.Fprintf(os.Stderr, "solver error: %s\n", line)
			res = "unknown"
			// keep reading for the check-sat answer
			continue
		}
		if line == "sat" || line == "unsat" || line == "unknown" || line == "timeout" {
			if res != "unknown" || s.Stats.Errors == 0 || true {
				if line == "timeout" {
					line = "unknown"
				}
				res = line
			}
			break
		}
	}
	s.Stats.Time += time.Since(t0)
	if d := time.Since(t0); d > 3*time.Second && os.Getenv("VERIF_PROGRESS") != "" {
		fmt.Fprintf(os.Stderr, "slow query: %.1fs res=%s prefix=%d\n", d.Seconds(), res, len(s.prefix))
		if os.Getenv("VERIF_DUMP_SLOW") != "" {
			all := append(append([]*Term{}, s.prefix...), assumps...)
			os.WriteFile(fmt.Sprintf("/tmp/slow_%d_%d.smt2", os.Getpid(), s.nq), []byte(Script(all, nil)), 0644)
		}
	}
	if s.CrossEvery > 0 && s.nq%s.CrossEvery == 0 && s.Stats.CrossChecked < s.CrossMax && (res == "sat" || res == "unsat") {
		s.crossCheck(assumps, res)
	}
	switch res {
	case "sat":
		s.Stats.Sat++
	case "unsat":
		s.Stats.Unsat++
	default:
		s.Stats.Unknown++
	}
	if !keepScope {
		s.pop(1)
	}
	return res
}

func (s *Solver) EndModel() { s.pop(1) }

// Values returns the model values of ts (BV/Bool/FP-as-bits) in the current sat scope.
func (s *Solver) Values(ts []*Term) ([]uint64, error) {
	out := make([]uint64, len(ts))
	const chunk = 256
	for base := 0; base < len(ts); base += chunk {
		end := base + chunk
		if end > len(ts) {
			end = len(ts)
		}
		var sb strings.Builder
		s.define(ts[base:end]...)
		sb.WriteString("(get-value (")
		for _, t := range ts[base:end] {
			if t.S.K == SFP || t.S.K == SArr {
				return nil, fmt.Errorf("get-value of non-scalar term")
			}
			sb.WriteString(ref(t))
			sb.WriteByte(' ')
		}
		sb.WriteString("))\n")
		s.send(sb.String())
		txt, err := s.readSexp()
		if err != nil {
			return nil, err
		}
		if strings.HasPrefix(txt, "(error") {
			return nil, fmt.Errorf("get-value: %s", txt)
		}
		vals, err := parseValues(txt, end-base)
		if err != nil {
			return nil, fmt.Errorf("parse get-value: %v in %.200s", err, txt)
		}
		copy(out[base:end], vals)
	}
	return out, nil
}

// readSexp reads one balanced s-expression from the solver output.
func (s *Solver) readSexp() (string, error) {
	var sb strings.Builder
	depth := 0
	started := false
	inBar := false
	for {
		b, err := s.out.ReadByte()
		if err != nil {
			return sb.String(), err
		}
		if !started {
			if b == ' ' || b == '\n' || b == '\r' || b == '\t' {
				continue
			}
			started = true
		}
		sb.WriteByte(b)
		if inBar {
			if b == '|' {
				inBar = false
			}
			continue
		}
		switch b {
		case '|':
			inBar = true
		case '(':
			depth++
		case ')':
			depth--
			if depth == 0 {
				return sb.String(), nil
			}
		case '\n':
			if depth == 0 {
				return sb.String(), nil
			}
		}
	}
}

// parseValues parses "((e v) (e v) ...)" extracting n values.
func parseValues(txt string, n int) ([]uint64, error) {
	// tokenise into top-level pairs
	txt = strings.TrimSpace(txt)
	if len(txt) < 2 || txt[0] != '(' {
		return nil, fmt.Errorf("not a list")
	}
	inner := txt[1 : len(txt)-1]
	var pairs []string
	depth := 0
	start := -1
	inBar := false
	for i := 0; i < len(inner); i++ {
		c := inner[i]
		if inBar {
			if c == '|' {
				inBar = false
			}
			continue
		}
		switch c {
		case '|':
			inBar = true
		case '(':
			if depth == 0 {
				start = i
			}
			depth++
		case ')':
			depth--
			if depth == 0 {
				pairs = append(pairs, inner[start:i+1])
			}
		}
	}
	if len(pairs) != n {
		return nil, fmt.Errorf("expected %d pairs, got %d", n, len(pairs))
	}
	out := make([]uint64, n)
	for i, p := range pairs {
		p = strings.TrimSpace(p[1 : len(p)-1])
		// value is the last token / sexp
		v := lastSexp(p)
		u, err := parseValue(v)
		if err != nil {
			return nil, fmt.Errorf("%v (pair %q)", err, p)
		}
		out[i] = u
	}
	return out, nil
}

func lastSexp(p string) string {
	p = strings.TrimSpace(p)
	if p[len(p)-1] != ')' {
		i := strings.LastIndexAny(p, " \t\n)")
		return p[i+1:]
	}
	depth := 0
	for i := len(p) - 1; i >= 0; i-- {
		switch p[i] {
		case ')':
			depth++
		case '(':
			depth--
			if depth == 0 {
				return p[i:]
			}
		}
	}
	return p
}

func parseValue(v string) (uint64, error) {
	v = strings.TrimSpace(v)
	switch {
	case v == "true":
		return 1, nil
	case v == "false":
		return 0, nil
	case strings.HasPrefix(v, "#x"):
		return strconv.ParseUint(v[2:], 16, 64)
	case strings.HasPrefix(v, "#b"):
		return strconv.ParseUint(v[2:], 2, 64)
	case strings.HasPrefix(v, "(_ bv"):
		f := strings.Fields(v[5:])
		return strconv.ParseUint(f[0], 10, 64)
	}
	return 0, fmt.Errorf("unparsed value %q", v)
}

// Script renders a standalone SMT-LIB2 script for the conjunction of assumps.
func Script(assumps []*Term, getvals []*Term) string {
	var sb strings.Builder
	defd := map[int]bool{}
	decl := map[string]bool{}
	s := &Solver{}
	for _, a := range assumps {
		s.emit(a, &sb, func(id int) bool { return defd[id] }, func(id int) { defd[id] = true }, decl)
	}
	for _, a := range getvals {
		s.emit(a, &sb, func(id int) bool { return defd[id] }, func(id int) { defd[id] = true }, decl)
	}
	for _, a := range assumps {
		if a.IsTrue() {
			continue
		}
		sb.WriteString("(assert " + ref(a) + ")\n")
	}
	sb.WriteString("(check-sat)\n")
	if len(getvals) > 0 {
		sb.WriteString("(get-value (")
		for _, t := range getvals {
			sb.WriteString(ref(t) + " ")
		}
		sb.WriteString("))\n")
	}
	return sb.String()
}

// OneShot runs a fresh solver process on the script; returns result and raw output.
func OneShot(bin string, args []string, script string, timeout time.Duration) (string, string, time.Duration) {
	f, err := os.CreateTemp("", "verifq*.smt2")
	if err != nil {
		return "unknown", err.Error(), 0
	}
	defer os.Remove(f.Name())
	f.WriteString(script)
	f.Close()
	t0 := time.Now()
	cmd := exec.Command("timeout", append([]string{fmt.Sprintf("%d", int(timeout.Seconds())+1), bin}, append(args, f.Name())...)...)
	out, _ := cmd.CombinedOutput()
	el := time.Since(t0)
	txt := string(out)
	if strings.Contains(txt, "(error") {
		return "unknown", txt, el
	}
	for _, line := range strings.Split(txt, "\n") {
		line = strings.TrimSpace(line)
		if line == "sat" || line == "unsat" {
			return line, txt, el
		}
	}
	return "unknown", txt, el
}


// SetPrefix makes the solver's asserted stack equal to pc. The whole prefix lives in a
// single push level: extending it only adds assertions; anything else re-asserts from scratch.
func (s *Solver) SetPrefix(pc []*Term) {
	k := 0
	for k < len(pc) && k < len(s.prefix) && pc[k] == s.prefix[k] {
		k++
	}
	if k < len(s.prefix) || !s.inPrefix {
		if s.inPrefix {
			s.pop(1)
		}
		s.push()
		s.inPrefix = true
		s.prefix = s.prefix[:0]
		k = 0
	}
	if k == len(pc) {
		return
	}
	var sb strings.Builder
	for ; k < len(pc); k++ {
		s.define(pc[k])
		if !pc[k].IsTrue() {
			sb.WriteString("(assert " + ref(pc[k]) + ")\n")
		}
		s.prefix = append(s.prefix, pc[k])
	}
	s.send(sb.String())
}

// CheckWith decides pc-prefix AND extra (extra may be nil).
func (s *Solver) CheckWith(pc []*Term, extra *Term, keepScope bool, want ...*Term) string {
	s.SetPrefix(pc)
	var as []*Term
	if extra != nil {
		as = []*Term{extra}
	}
	return s.Check(as, keepScope, want...)
}


// crossCheck re-decides the current query (prefix and assumptions) as a standalone script
// with two other solvers and records whether they agree with the primary answer.
func (s *Solver) crossCheck(assumps []*Term, res string) {
	all := append(append([]*Term{}, s.prefix...), assumps...)
	script := Script(all, nil)
	s.Stats.CrossChecked++
	agree, disagree := 0, 0
	type alt struct {
		bin  string
		args []string
		pre  string
	}
	for _, a := range []alt{{"z3", []string{"-T:20"}, ""}, {"cvc5", []string{"--tlimit=20000"}, "(set-logic ALL)\n"}} {
		if _, err := exec.LookPath(a.bin); err != nil {
			continue
		}
		if a.bin == "z3" && strings.HasSuffix(s.bin, "/z3") {
			continue // same binary as the primary
		}
		r, _, _ := OneShot(a.bin, a.args, a.pre+script, 25*time.Second)
		switch {
		case r == res:
			agree++
		case r == "sat" || r == "unsat":
			disagree++
			fmt.Fprintf(os.Stderr, "SOLVER DISAGREEMENT: primary %s, %s says %s\n", res, a.bin, r)
		}
	}
	switch {
	case disagree > 0:
		s.Stats.CrossDisagree++
	case agree > 0:
		s.Stats.CrossAgree++
	default:
		s.Stats.CrossInconclusive++
	}
}
