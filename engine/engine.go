package main

import (
	"bytes"
	"encoding/json"
	"fmt"
	"go/ast"
	"go/parser"
	"go/printer"
	"go/token"
	"go/types"
	"io"
	"os"
	"path/filepath"
	"sort"
	"strconv"
	"strings"
	"sync"
	"time"

	"golang.org/x/tools/go/packages"
	"golang.org/x/tools/go/ssa"
	"golang.org/x/tools/go/ssa/ssautil"
)

// ---- spec ----

type EntryCfg struct {
	Func      string            `json:"func"`
	Pkg       string            `json:"pkg"`
	Tier      string            `json:"tier"` // "quick" (default: both tiers) or "thorough"
	Unwind    int               `json:"unwind"`
	UnwindFn  map[string]int    `json:"unwind_fn"`
	MaxSteps  int               `json:"max_steps"`
	MaxValues int               `json:"max_values"`
	MaxPaths  int               `json:"max_paths"`
	Params    map[string]int    `json:"params"`       // harness parameters (vrt.Param)
	ParamsT   map[string]int    `json:"params_thorough"` // overrides in thorough tier
	Note      string            `json:"note"`
	Total     bool              `json:"total"` // unwinding-bound hits are candidate non-termination violations
	TimeoutS  int               `json:"timeout_s"`
	Clause    string            `json:"clause"`
	NoRedirect []string         `json:"no_redirect"` // spec redirects that do not apply to this entry
}

type Substitution struct {
	Dir     string            `json:"dir"`     // package dir relative to module root
	Imports map[string]string `json:"imports"` // import path -> replacement path
	Files   []string          `json:"files"`   // optional restriction
}

type Spec struct {
	Property   string            `json:"property"`
	ModuleDir  string            `json:"module_dir"`
	Packages   []string          `json:"packages"`
	Overlays   map[string]string `json:"overlays"` // path relative to module dir -> file relative to /verif
	Substitute []Substitution    `json:"substitute"`
	Redirects  map[string]string `json:"redirects"` // full function name -> "pkgpath.Func"
	SkipInit   []string          `json:"skip_init"`
	Entries    []EntryCfg        `json:"entries"`
	Assumptions []string         `json:"assumptions"`
	Stubs      []string          `json:"stubs"`
	Bounds     map[string]string `json:"bounds"`
	Outside    []string          `json:"outside"`
	GoInline   bool              `json:"go_inline"`
	Instrument []Instrument      `json:"instrument"`
	RandFixed  *int              `json:"rand_fixed"` // math/rand.Intn(n) returns this value mod n instead of an arbitrary one
	Parts      []string          `json:"parts"` // further spec files of the same property (other modules / package sets)
	Tags       []string          `json:"tags"`
}

// repoDir is the root of the golang/telemetry tree under analysis: /repo, unless VERIF_REPO
// names another checkout (used to try the checks on scratch worktrees carrying seeded
// changes; registered commands never set it).
func repoDir() string {
	if d := os.Getenv("VERIF_REPO"); d != "" {
		return d
	}
	return "/repo"
}

// ---- engine ----

type Intrinsic func(p *Path, fn *ssa.Function, args []Value) Value

type Engine struct {
	spec      *Spec
	verifDir  string
	prog      *ssa.Program
	pkgs      map[string]*ssa.Package
	intr      map[string]Intrinsic
	redirects map[string]*ssa.Function
	selftest  int // >0: translator self-test, models per path
	skipInit  map[string]bool
	initMu          sync.Mutex
	initStoredCache map[*ssa.Package][]*ssa.Global
	errType   types.Type
	logw      io.Writer
	goInline  bool
	overlay   map[string][]byte
	mu        sync.Mutex
	funcs     map[*ssa.Function]bool
	intrCache sync.Map
	tier      string
	mapOrderSym bool
	noIfConv  bool
	instrumented []string
}

type Worker struct {
	id     int
	tt     *TermTable
	solver *Solver
	funcs  map[*ssa.Function]bool
}

func (e *Engine) noteFunc(w *Worker, fn *ssa.Function) {
	if !w.funcs[fn] {
		w.funcs[fn] = true
	}
}

func (e *Engine) unwindFor(cfg *EntryCfg, fn *ssa.Function) int {
	if cfg.UnwindFn != nil {
		if u, ok := cfg.UnwindFn[fn.String()]; ok {
			return u
		}
		if u, ok := cfg.UnwindFn[fn.Name()]; ok {
			return u
		}
	}
	return cfg.Unwind
}

func (e *Engine) mapOrder(p *Path, n int) []int {
	if !p.mapOrderSym || n < 2 {
		return nil
	}
	// symbolic permutation by forking: choose each position
	rest := make([]int, n)
	for i := range rest {
		rest[i] = i
	}
	var order []int
	for len(rest) > 1 {
		k := p.chooseFork(len(rest))
		order = append(order, rest[k])
		rest = append(append([]int{}, rest[:k]...), rest[k+1:]...)
	}
	return append(order, rest[0])
}

func (e *Engine) lookupMethod(t types.Type, m *types.Func) *ssa.Function {
	ms := e.prog.MethodSets.MethodSet(t)
	sel := ms.Lookup(m.Pkg(), m.Name())
	if sel == nil {
		return nil
	}
	return e.prog.MethodValue(sel)
}

func (e *Engine) lookupMethodByName(t types.Type, name string) *ssa.Function {
	ms := e.prog.MethodSets.MethodSet(t)
	for i := 0; i < ms.Len(); i++ {
		if ms.At(i).Obj().Name() == name {
			return e.prog.MethodValue(ms.At(i))
		}
	}
	return nil
}

func (e *Engine) lookupIntrinsic(fn *ssa.Function, name string) Intrinsic {
	if h, ok := e.intr[name]; ok {
		return h
	}
	if fn.Pkg != nil && strings.HasSuffix(fn.Pkg.Pkg.Path(), "/internal/vrt") {
		if h, ok := e.intr["vrt."+fn.Name()]; ok {
			return h
		}
	}
	if o := fn.Origin(); o != nil {
		if h, ok := e.intr[o.String()]; ok {
			return h
		}
	}
	return nil
}

func (e *Engine) redirect(fn *ssa.Function, name string) *ssa.Function {
	if r, ok := e.redirects[name]; ok {
		return r
	}
	return nil
}

func (e *Engine) findFunc(full string) *ssa.Function {
	i := strings.LastIndex(full, ".")
	if i < 0 {
		return nil
	}
	pkg := e.prog.ImportedPackage(full[:i])
	if pkg == nil {
		return nil
	}
	return pkg.Func(full[i+1:])
}

// buildOverlay prepares overlay files: vrt packages, harness files, import-substituted sources.
func (e *Engine) buildOverlay() (map[string][]byte, error) {
	ov := map[string][]byte{}
	repoRoot := repoDir()
	// vrt support packages
	vrtRoot := filepath.Join(e.verifDir, "harness", "vrt")
	err := filepath.Walk(vrtRoot, func(path string, info os.FileInfo, err error) error {
		if err != nil {
			return err
		}
		if info.IsDir() || !strings.HasSuffix(path, ".go") {
			return nil
		}
		rel, _ := filepath.Rel(vrtRoot, path)
		data, err := os.ReadFile(path)
		if err != nil {
			return err
		}
		ov[filepath.Join(repoRoot, "internal", "vrt", rel)] = data
		return nil
	})
	if err != nil {
		return nil, err
	}
	for dst, src := range e.spec.Overlays {
		data, err := os.ReadFile(filepath.Join(e.verifDir, src))
		if err != nil {
			return nil, err
		}
		ov[filepath.Join(e.spec.ModuleDir, dst)] = data
	}
	if err := e.instrument(ov); err != nil {
		return nil, err
	}
	for _, sub := range e.spec.Substitute {
		dir := filepath.Join(e.spec.ModuleDir, sub.Dir)
		ents, err := os.ReadDir(dir)
		if err != nil {
			return nil, err
		}
		for _, ent := range ents {
			n := ent.Name()
			if !strings.HasSuffix(n, ".go") || strings.HasSuffix(n, "_test.go") {
				continue
			}
			if len(sub.Files) > 0 {
				found := false
				for _, f := range sub.Files {
					if f == n {
						found = true
					}
				}
				if !found {
					continue
				}
			}
			full := filepath.Join(dir, n)
			out, changed, err := substituteImports(full, ov[full], sub.Imports)
			if err != nil {
				return nil, err
			}
			if changed {
				ov[full] = out
			}
		}
	}
	return ov, nil
}

func substituteImports(file string, src []byte, imports map[string]string) ([]byte, bool, error) {
	fset := token.NewFileSet()
	if src == nil {
		var err error
		src, err = os.ReadFile(file)
		if err != nil {
			return nil, false, err
		}
	}
	f, err := parser.ParseFile(fset, file, src, parser.ParseComments)
	if err != nil {
		return nil, false, err
	}
	changed := false
	for _, imp := range f.Imports {
		p, _ := strconv.Unquote(imp.Path.Value)
		if np, ok := imports[p]; ok {
			name := filepath.Base(p)
			if imp.Name != nil {
				name = imp.Name.Name
			}
			imp.Name = ast.NewIdent(name)
			imp.Path.Value = strconv.Quote(np)
			changed = true
		}
	}
	if !changed {
		return src, false, nil
	}
	var buf bytes.Buffer
	if err := printer.Fprint(&buf, fset, f); err != nil {
		return nil, false, err
	}
	return buf.Bytes(), true, nil
}

func (e *Engine) load() error {
	ov, err := e.buildOverlay()
	if err != nil {
		return err
	}
	e.overlay = ov
	env := append(os.Environ(), "GOFLAGS=-mod=mod", "GOPROXY=off", "GOSUMDB=off", "GOTOOLCHAIN=local")
	flags := []string{}
	tags := append([]string{"verifsym"}, e.spec.Tags...)
	flags = append(flags, "-tags="+strings.Join(tags, ","))
	cfg := &packages.Config{
		Mode:       packages.LoadAllSyntax,
		Dir:        e.spec.ModuleDir,
		Overlay:    ov,
		Env:        env,
		BuildFlags: flags,
	}
	pats := append([]string{}, e.spec.Packages...)
	pats = append(pats, "golang.org/x/telemetry/internal/vrt")
	pkgs, err := packages.Load(cfg, pats...)
	if err != nil {
		return err
	}
	nerr := 0
	packages.Visit(pkgs, nil, func(p *packages.Package) {
		for _, er := range p.Errors {
			fmt.Fprintf(os.Stderr, "load error: %v\n", er)
			nerr++
		}
	})
	if nerr > 0 {
		return fmt.Errorf("%d package load errors", nerr)
	}
	prog, _ := ssautil.AllPackages(pkgs, ssa.InstantiateGenerics)
	prog.Build()
	e.prog = prog
	e.pkgs = map[string]*ssa.Package{}
	for _, p := range prog.AllPackages() {
		e.pkgs[p.Pkg.Path()] = p
	}
	vrt := e.pkgs["golang.org/x/telemetry/internal/vrt"]
	if vrt == nil {
		return fmt.Errorf("vrt package not loaded")
	}
	if t := vrt.Type("RuntimeError"); t != nil {
		e.errType = t.Type()
	}
	e.redirects = map[string]*ssa.Function{}
	for from, to := range defaultRedirects {
		if f := e.findFunc(to); f != nil {
			e.redirects[from] = f
		}
	}
	for from, to := range e.spec.Redirects {
		f := e.findFunc(to)
		if f == nil {
			return fmt.Errorf("redirect target %s not found", to)
		}
		e.redirects[from] = f
	}
	e.skipInit = map[string]bool{}
	for _, s := range e.spec.SkipInit {
		e.skipInit[s] = true
	}
	for _, s := range defaultSkipInit {
		e.skipInit[s] = true
	}
	e.goInline = e.spec.GoInline
	return nil
}

// ---- exploration ----

type workItem struct {
	entry int
	dec   []Decision
}

type EntryResult struct {
	Cfg         *EntryCfg
	Paths       int
	Done        int
	Infeasible  int
	Unsupported map[string]int
	Unwound     map[string]int
	Budget      int
	Stopped     int
	Asserts     int
	Trivial     int
	Discharged  int
	Unknown     int
	Violations  []Violation
	Reached     map[string]int
	Steps       int
	Truncated   bool
	PCSamples   []string
	DecSamples  []string
	Wall        time.Duration
	UnwoundViol []Violation
}

func (e *Engine) runPath(w *Worker, cfg *EntryCfg, fn *ssa.Function, dec []Decision) (res *PathResult) {
	p := &Path{
		eng: e, w: w, tt: w.tt, entry: cfg.Func, dec: dec,
		globals: map[*ssa.Global]*Obj{}, initDone: map[*ssa.Package]bool{},
		res: &PathResult{}, cfg: cfg, mutex: map[string]bool{},
	}
	res = p.res
	defer func() {
		if len(p.threads) > 0 {
			// park-and-kill the harness threads before anything else touches the path
			func() {
				defer func() { recover() }()
				p.coKillAll()
			}()
		}
		res.Steps = p.steps
		if len(p.pc) > 0 && res.Status == "done" {
			res.PCSample = Pretty(p.tt.And(p.pc...), 400)
		}
		if res.Status == "done" && len(p.trace) > 0 {
			// the decision sequence that identifies this path (branch outcomes b0/b1,
			// chosen values c<v>, excluded values x<v>): for threaded entries the c-values
			// inside the scheduler are the schedule
			var sb strings.Builder
			for i, d := range p.trace {
				if i >= 120 {
					sb.WriteString(" ...")
					break
				}
				switch d.K {
				case 0:
					fmt.Fprintf(&sb, " b%d", d.V&1)
				case 1:
					fmt.Fprintf(&sb, " c%d", d.V)
				default:
					fmt.Fprintf(&sb, " x%d", d.V)
				}
			}
			res.DecSample = strings.TrimSpace(sb.String())
		}
		if r := recover(); r != nil {
			switch x := r.(type) {
			case pathAbort:
				switch x.kind {
				case abInfeasible:
					res.Status = "infeasible"
				case abUnsupported:
					res.Status = "unsupported"
				case abUnwound:
					res.Status = "unwound"
					if cfg.Total {
						// candidate non-termination: record model for native replay under timeout
						p.cur = nil
						if p.recordViolation("unwind", x.msg, nil) {
							n := len(res.Violations)
							res.Violations[n-1].Where = res.Unwound
						}
					}
				case abBudget:
					res.Status = "budget"
					if cfg.Total {
						// a loop that makes no symbolic decision never reaches the
						// unwinding bound: exhausting the step budget is the
						// candidate for non-termination (replayed natively under a timeout)
						where := ""
						if p.cur != nil && p.cur.fn != nil {
							where = p.cur.fn.String()
						}
						if p.recordViolation("unwind", "step budget exhausted (possible non-termination) in "+where, nil) {
							n := len(res.Violations)
							res.Violations[n-1].Where = where
						}
					}
				case abStop:
					res.Status = "stopped"
				}
				res.Msg = x.msg
			case *GoPanic:
				res.Status = "panic"
				res.Msg = x.Msg
				if e.selftest > 0 {
					p.cur = nil
					p.recordObservations(e.selftest, true)
				} else if !p.panicOK {
					p.res.Asserts++
					p.cur = nil
					p.recordViolation("panic", "panic: "+x.Msg, nil)
				}
			default:
				panic(r)
			}
		}
	}()
	p.callFunction(fn, nil, nil)
	res.Status = "done"
	if e.selftest > 0 {
		p.recordObservations(e.selftest, false)
	}
	return res
}

func (e *Engine) explore(entries []EntryCfg, nworkers int, solverBin string, qtimeout int) ([]*EntryResult, []*Worker, error) {
	results := make([]*EntryResult, len(entries))
	fns := make([]*ssa.Function, len(entries))
	for i := range entries {
		cfg := &entries[i]
		pkg := e.pkgs[cfg.Pkg]
		if pkg == nil {
			return nil, nil, fmt.Errorf("package %s not loaded", cfg.Pkg)
		}
		fn := pkg.Func(cfg.Func)
		if fn == nil {
			return nil, nil, fmt.Errorf("entry %s not found in %s", cfg.Func, cfg.Pkg)
		}
		fns[i] = fn
		results[i] = &EntryResult{Cfg: cfg, Unsupported: map[string]int{}, Unwound: map[string]int{}, Reached: map[string]int{}}
	}
	var mu sync.Mutex
	cond := sync.NewCond(&mu)
	var stack []workItem
	for i := len(entries) - 1; i >= 0; i-- {
		stack = append(stack, workItem{entry: i})
	}
	active := 0
	starts := make([]time.Time, len(entries))
	busy := make([]time.Duration, len(entries))
	workers := make([]*Worker, nworkers)
	var wg sync.WaitGroup
	var firstErr error
	for wi := 0; wi < nworkers; wi++ {
		tt := NewTermTable()
		s, err := NewSolver(tt, solverBin, qtimeout)
		if err != nil {
			return nil, nil, err
		}
		if e.tier == "thorough" {
			s.CrossEvery, s.CrossMax = 300, 12
		} else {
			s.CrossEvery, s.CrossMax = 2500, 2
		}
		w := &Worker{id: wi, tt: tt, solver: s, funcs: map[*ssa.Function]bool{}}
		workers[wi] = w
		wg.Add(1)
		go func() {
			defer wg.Done()
			defer w.solver.Close()
			for {
				mu.Lock()
				for len(stack) == 0 && active > 0 {
					cond.Wait()
				}
				if len(stack) == 0 && active == 0 {
					mu.Unlock()
					cond.Broadcast()
					return
				}
				it := stack[len(stack)-1]
				stack = stack[:len(stack)-1]
				er := results[it.entry]
				if er.Cfg.MaxPaths > 0 && er.Paths >= er.Cfg.MaxPaths {
					er.Truncated = true
					mu.Unlock()
					continue
				}
				if starts[it.entry].IsZero() {
					starts[it.entry] = time.Now()
				}
				// the time limit of an entry is a budget of worker time (TimeoutS seconds of
				// all workers), so that entries sharing the workers do not starve each other
				if er.Cfg.TimeoutS > 0 && busy[it.entry] > time.Duration(er.Cfg.TimeoutS)*time.Second*time.Duration(nworkers) {
					er.Truncated = true
					mu.Unlock()
					continue
				}
				er.Paths++
				active++
				mu.Unlock()
				tPath := time.Now()

				var res *PathResult
				func() {
					defer func() {
						if r := recover(); r != nil {
							res = &PathResult{Status: "unsupported", Msg: fmt.Sprintf("engine panic: %v", r)}
							if os.Getenv("VERIF_DEBUG") != "" {
								panic(r)
							}
						}
					}()
					res = e.runPath(w, er.Cfg, fns[it.entry], it.dec)
				}()

				mu.Lock()
				active--
				busy[it.entry] += time.Since(tPath)
				for _, alt := range res.Alts {
					stack = append(stack, workItem{entry: it.entry, dec: alt})
				}
				switch res.Status {
				case "done":
					er.Done++
				case "infeasible":
					er.Infeasible++
				case "unsupported":
					er.Unsupported[res.Msg]++
				case "unwound":
					er.Unwound[res.Msg]++
				case "budget":
					er.Budget++
				case "stopped", "panic":
					er.Stopped++
				}
				er.Asserts += res.Asserts
				er.Trivial += res.Trivial
				er.Discharged += res.Discharged
				er.Unknown += res.Unknown
				er.Steps += res.Steps
				er.Violations = append(er.Violations, res.Violations...)
				for _, r := range res.Reached {
					er.Reached[r]++
				}
				if res.PCSample != "" && len(er.PCSamples) < 3 {
					er.PCSamples = append(er.PCSamples, res.PCSample)
				}
				if res.DecSample != "" && (len(er.DecSamples) < 2 || (len(er.DecSamples) < 3 && er.Paths > 50)) {
					er.DecSamples = append(er.DecSamples, res.DecSample)
				}
				er.Wall = time.Since(starts[it.entry])
				mu.Unlock()
				cond.Broadcast()
			}
		}()
	}
	stopProg := make(chan bool)
	if os.Getenv("VERIF_PROGRESS") != "" {
		go func() {
			tk := time.NewTicker(5 * time.Second)
			defer tk.Stop()
			for {
				select {
				case <-stopProg:
					return
				case <-tk.C:
					mu.Lock()
					msg := ""
					for _, er := range results {
						nu := 0
						for _, c := range er.Unsupported {
							nu += c
						}
						msg += fmt.Sprintf(" %s:p=%d,d=%d,u=%d,v=%d", er.Cfg.Func, er.Paths, er.Done, nu, len(er.Violations))
					}
					q := 0
					for _, w := range workers {
						if w != nil {
							q += w.solver.Stats.Queries
						}
					}
					fmt.Fprintf(os.Stderr, "progress: stack=%d active=%d queries=%d%s\n", len(stack), active, q, msg)
					mu.Unlock()
				}
			}
		}()
	}
	wg.Wait()
	close(stopProg)
	return results, workers, firstErr
}

// ---- helpers for evidence ----

func funcList(workers []*Worker) []string {
	set := map[string]int{}
	for _, w := range workers {
		for fn := range w.funcs {
			n := 0
			for _, b := range fn.Blocks {
				n += len(b.Instrs)
			}
			set[fn.String()] = n
		}
	}
	var out []string
	for k, n := range set {
		out = append(out, fmt.Sprintf("%s (%d instrs)", k, n))
	}
	sort.Strings(out)
	return out
}

func writeJSON(path string, v interface{}) error {
	data, err := json.MarshalIndent(v, "", " ")
	if err != nil {
		return err
	}
	os.MkdirAll(filepath.Dir(path), 0755)
	return os.WriteFile(path, data, 0644)
}
