package main

import (
	"fmt"
	"go/constant"
	"go/token"
	"go/types"
	"math"
	"os"
	"runtime/debug"
	"sort"
	"strings"
	"sync"

	"golang.org/x/tools/go/ssa"
)

type abortKind int

const (
	abInfeasible abortKind = iota
	abUnsupported
	abUnwound
	abBudget
	abStop // path ended deliberately (after fault, os.Exit, ...)
)

type pathAbort struct {
	kind abortKind
	msg  string
}

// GoPanic models a Go-level panic propagating through the interpreted program.
type GoPanic struct {
	V       Value // interface value passed to panic
	Msg     string
	Runtime bool
}

type Decision struct {
	K byte // 0 branch, 1 concretize-eq, 2 concretize-ne
	V uint64
}

type deferred struct {
	fn   Value
	args []Value
	call *ssa.CallCommon
}

type Frame struct {
	fn       *ssa.Function
	locals   map[ssa.Value]Value
	defers   []deferred
	block    *ssa.BasicBlock
	prev     *ssa.BasicBlock
	panic    *GoPanic
	visits   map[int]int
	lastSym  map[int]int
	caller   *Frame
	running  bool // running defers
	results  []Value
	returned bool
	skipPhi  bool
}

type Violation struct {
	Label  string   `json:"label"`
	Kind   string   `json:"kind"` // assert, panic, fault, unwind
	Entry  string   `json:"entry"`
	Values []uint64 `json:"values"`
	Kinds  []string `json:"kinds,omitempty"`
	Where  string   `json:"where,omitempty"`
	Trace  []Decision `json:"-"`
	Expect []uint64 `json:"expect,omitempty"` // selftest: values of the observations in this model
}

type PathResult struct {
	Status      string // done, infeasible, unsupported, unwound, budget, stopped
	Msg         string
	Asserts     int
	Trivial     int
	Discharged  int
	Unknown     int
	Violations  []Violation
	Reached     []string
	Steps       int
	Decisions   int
	Alts        [][]Decision
	PCSample    string
	DecSample   string
	Unwound     string
}

type Path struct {
	eng   *Engine
	w     *Worker
	tt    *TermTable
	entry string
	pc    []*Term
	dec   []Decision
	di    int
	trace []Decision
	nd      []*Term
	ndKinds []string
	globals map[*ssa.Global]*Obj
	initDone map[*ssa.Package]bool
	nobj  int
	steps int
	nsym  int
	depth int
	res   *PathResult
	recoverFrame *Frame
	mutex map[string]bool
	cfg   *EntryCfg
	cur   *Frame
	maps  int
	faultOK bool
	inInit int
	inExit bool
	panicOK bool
	mapOrderSym bool
	spec    bool
	nIfConv int
	gtext   map[int][]*Term
	threads   []*coThread
	curThread int
	obs       []*Term // selftest observations
}

// recordObservations (selftest) asks for up to k models of the finished path that differ
// in what was observed (or, when every observation is concrete, in some input), and
// records for each the input values and the values of the observations in that model.
func (p *Path) recordObservations(k int, panicked bool) {
	if len(p.obs) == 0 && !panicked {
		return
	}
	obs := append([]*Term{}, p.obs...)
	if panicked {
		obs = append(obs, p.tt.Const(64, 0xdead))
	}
	var want []*Term
	want = append(want, p.nd...)
	want = append(want, obs...)
	var block *Term
	for i := 0; i < k; i++ {
		r := p.w.solver.CheckWith(p.pc, block, true, want...)
		if r != "sat" {
			p.w.solver.EndModel()
			return
		}
		vals, err := p.w.solver.Values(want)
		p.w.solver.EndModel()
		if err != nil {
			return
		}
		nv := append([]uint64{}, vals[:len(p.nd)]...)
		ov := make([]uint64, len(obs))
		for j, t := range obs {
			ov[j] = vals[len(p.nd)+j] & mask(t.S.W)
		}
		p.res.Violations = append(p.res.Violations, Violation{Label: fmt.Sprintf("model %d", i), Kind: "observe", Entry: p.entry,
			Values: nv, Kinds: append([]string{}, p.ndKinds...), Expect: ov, Trace: append([]Decision{}, p.trace...)})
		// next model: some observation (else some input) takes another value
		var diff []*Term
		for j, t := range obs {
			if t.Op != OConst && t.S.K == SBV {
				diff = append(diff, p.tt.Not(p.tt.Eq(t, p.tt.Const(t.S.W, ov[j]))))
			}
		}
		if len(diff) == 0 {
			for j, t := range p.nd {
				if t.S.K == SBV {
					diff = append(diff, p.tt.Not(p.tt.Eq(t, p.tt.Const(t.S.W, nv[j]&mask(t.S.W)))))
				}
			}
		}
		if len(diff) == 0 {
			return
		}
		d := p.tt.Or(diff...)
		if block == nil {
			block = d
		} else {
			block = p.tt.And(block, d)
		}
	}
}

func (p *Path) unsupported(format string, args ...interface{}) pathAbort {
	loc := ""
	if p.cur != nil && p.cur.fn != nil {
		loc = " in " + p.cur.fn.String()
	}
	if os.Getenv("VERIF_TRACE_UNSUP") != "" {
		fmt.Fprintf(os.Stderr, "UNSUPPORTED: %s%s\n%s\n", fmt.Sprintf(format, args...), loc, debug.Stack())
		for f := p.cur; f != nil; f = f.caller {
			fmt.Fprintf(os.Stderr, "   at %s\n", f.fn)
		}
	}
	return pathAbort{abUnsupported, fmt.Sprintf(format, args...) + loc}
}

// ---- solver interaction ----

func (p *Path) check(extra *Term) string {
	return p.w.solver.CheckWith(p.pc, extra, false)
}

func (p *Path) feasible(c *Term) bool {
	r := p.check(c)
	if r == "unknown" {
		p.res.Unknown++
	}
	return r != "unsat"
}

func (p *Path) addPC(c *Term) {
	if c.IsTrue() {
		return
	}
	p.pc = append(p.pc, c)
}

type specAbort struct{}

var (
	forkLogOn = os.Getenv("VERIF_FORKLOG") != ""
	forkLogMu sync.Mutex
	forkLog   = map[string]int{}
)

// noteFork records where two-sided forks happen (debug aid: VERIF_FORKLOG=1).
func noteFork(p *Path, kind string) {
	if !forkLogOn {
		return
	}
	loc := "?"
	if p.cur != nil && p.cur.fn != nil {
		loc = p.cur.fn.String()
		if p.cur.block != nil {
			loc += fmt.Sprintf("#%d", p.cur.block.Index)
		}
		for f, n := p.cur.caller, 0; f != nil && f.fn != nil && n < 5; f, n = f.caller, n+1 {
			loc += " <- " + f.fn.Name()
		}
	}
	forkLogMu.Lock()
	forkLog[kind+" @ "+loc]++
	forkLogMu.Unlock()
}

func dumpForkLog() {
	if !forkLogOn {
		return
	}
	type kv struct {
		k string
		v int
	}
	var l []kv
	for k, v := range forkLog {
		l = append(l, kv{k, v})
	}
	sort.Slice(l, func(i, j int) bool { return l[i].v > l[j].v })
	for i, e := range l {
		if i >= 40 {
			break
		}
		fmt.Fprintf(os.Stderr, "fork x%d: %s\n", e.v, e.k)
	}
}

func (p *Path) branch(c *Term) bool {
	if c.IsConst() {
		return c.C == 1
	}
	if p.spec {
		panic(specAbort{})
	}
	p.nsym++
	if p.di < len(p.dec) {
		d := p.dec[p.di]
		p.di++
		p.trace = append(p.trace, d)
		if d.K != 0 {
			panic(p.unsupported("internal: decision kind mismatch at branch (replay divergence)"))
		}
		switch d.V {
		case 1:
			p.addPC(c)
			return true
		case 0:
			p.addPC(p.tt.Not(c))
			return false
		case 3:
			return true
		default:
			return false
		}
	}
	p.res.Decisions++
	if p.feasible(c) {
		if p.feasible(p.tt.Not(c)) {
			noteFork(p, "branch")
			alt := make([]Decision, len(p.trace)+1)
			copy(alt, p.trace)
			alt[len(p.trace)] = Decision{0, 0}
			p.res.Alts = append(p.res.Alts, alt)
			p.trace = append(p.trace, Decision{0, 1})
			p.addPC(c)
			return true
		}
		p.trace = append(p.trace, Decision{0, 3})
		return true
	}
	p.trace = append(p.trace, Decision{0, 2})
	return false
}

// concretize forks over the feasible values of t.
func (p *Path) concretize(t *Term, what string) uint64 {
	if t.IsConst() {
		return t.C
	}
	if p.spec {
		panic(specAbort{})
	}
	p.nsym++
	excluded := 0
	for {
		if p.di < len(p.dec) {
			d := p.dec[p.di]
			p.di++
			p.trace = append(p.trace, d)
			c := p.tt.Eq(t, p.tt.Const(t.S.W, d.V))
			if d.K == 1 {
				p.addPC(c)
				return d.V
			}
			if d.K != 2 {
				panic(p.unsupported("internal: decision kind mismatch at concretize (replay divergence)"))
			}
			p.addPC(p.tt.Not(c))
			excluded++
			continue
		}
		if excluded >= p.cfg.MaxValues {
			panic(p.unsupported("concretize(%s): more than %d feasible values of %s", what, p.cfg.MaxValues, Pretty(t, 160)))
		}
		p.res.Decisions++
		r := p.w.solver.CheckWith(p.pc, nil, true, t)
		if r != "sat" {
			p.w.solver.EndModel()
			if r == "unknown" {
				p.res.Unknown++
				panic(p.unsupported("concretize(%s): solver unknown", what))
			}
			panic(pathAbort{abInfeasible, "no more values for " + what})
		}
		vals, err := p.w.solver.Values([]*Term{t})
		p.w.solver.EndModel()
		if err != nil {
			panic(p.unsupported("concretize(%s): %v", what, err))
		}
		v := vals[0] & mask(t.S.W)
		c := p.tt.Eq(t, p.tt.Const(t.S.W, v))
		if p.feasible(p.tt.Not(c)) {
			noteFork(p, "concretize "+what)
			alt := make([]Decision, len(p.trace)+1)
			copy(alt, p.trace)
			alt[len(p.trace)] = Decision{2, v}
			p.res.Alts = append(p.res.Alts, alt)
		}
		p.trace = append(p.trace, Decision{1, v})
		p.addPC(c)
		return v
	}
}

func (p *Path) model(extra *Term) ([]uint64, string) {
	// collect scalar terms whose values are wanted: nondet vars; for array vars, selects
	want, expand := p.wantedTerms()
	r := p.w.solver.CheckWith(p.pc, extra, true, want...)
	if r != "sat" {
		p.w.solver.EndModel()
		return nil, r
	}
	vals, err := p.w.solver.Values(want)
	p.w.solver.EndModel()
	if err != nil {
		fmt.Fprintf(p.eng.logw, "model extraction failed: %v\n", err)
		return nil, "unknown"
	}
	return expand(vals), "sat"
}

// wantedTerms lists scalar terms for all nondet inputs of this path in creation order.
func (p *Path) wantedTerms() ([]*Term, func([]uint64) []uint64) {
	var want []*Term
	for _, v := range p.nd {
		want = append(want, v)
	}
	return want, func(vals []uint64) []uint64 { return vals }
}

func (p *Path) recordViolation(kind, label string, extra *Term) bool {
	vals, r := p.model(extra)
	if r == "unsat" {
		return false
	}
	if r != "sat" {
		p.res.Unknown++
		return false
	}
	where := ""
	if p.cur != nil && p.cur.fn != nil {
		where = p.cur.fn.String()
	}
	v := Violation{Label: label, Kind: kind, Entry: p.entry, Values: vals, Kinds: append([]string{}, p.ndKinds...), Where: where}
	v.Trace = append([]Decision{}, p.trace...)
	p.res.Violations = append(p.res.Violations, v)
	return true
}

func (p *Path) assertCond(c *Term, label string) {
	p.res.Asserts++
	if c.IsTrue() {
		p.res.Trivial++
		return
	}
	neg := p.tt.Not(c)
	vals, r := p.model(neg)
	switch r {
	case "sat":
		where := ""
		if p.cur != nil && p.cur.fn != nil {
			where = p.cur.fn.String()
		}
		p.res.Violations = append(p.res.Violations, Violation{Label: label, Kind: "assert", Entry: p.entry, Values: vals, Kinds: append([]string{}, p.ndKinds...), Where: where, Trace: append([]Decision{}, p.trace...)})
	case "unsat":
		p.res.Discharged++
	default:
		p.res.Unknown++
	}
	if c.IsFalse() {
		panic(pathAbort{abStop, "assert(false): " + label})
	}
	p.addPC(c)
	if r == "sat" {
		// continue only if the assertion can also hold
		if !p.feasible(nil) {
			panic(pathAbort{abStop, "assertion always violated on this path: " + label})
		}
	}
}

// fault records a memory-safety style violation on the current (feasible) path and stops.
func (p *Path) fault(format string, args ...interface{}) {
	msg := fmt.Sprintf(format, args...)
	// where: the chain of callers in the code under test (library and harness-runtime frames skipped)
	chain := ""
	n := 0
	for f := p.cur; f != nil && n < 4; f = f.caller {
		if f.fn == nil || f.fn.Pkg == nil {
			continue
		}
		pp := f.fn.Pkg.Pkg.Path()
		if pp == "sync/atomic" || strings.HasSuffix(pp, "/internal/vrt") {
			continue
		}
		if chain != "" {
			chain += " <- "
		}
		chain += f.fn.Name()
		n++
	}
	if chain != "" {
		msg += " [in " + chain + "]"
	}
	p.res.Asserts++
	p.recordViolation("fault", msg, nil)
	panic(pathAbort{abStop, "fault: " + msg})
}

func (p *Path) goPanicRuntime(msg string) {
	if p.cur != nil && p.cur.fn != nil && !p.spec {
		st := ""
		for f, n := p.cur, 0; f != nil && n < 6; f, n = f.caller, n+1 {
			st += " <- " + f.fn.Name()
		}
		msg += " [at" + st + "]"
	}
	panic(&GoPanic{V: &Iface{T: p.eng.errType, V: p.concStr("runtime error: " + msg)}, Msg: "runtime error: " + msg, Runtime: true})
}

// ---- nondet ----

func (p *Path) nondet(kind string, s Sort) *Term {
	v := p.tt.Var(fmt.Sprintf("nd%d_%s", len(p.nd), kind), s)
	p.nd = append(p.nd, v)
	p.ndKinds = append(p.ndKinds, kind)
	return v
}

// ---- globals ----

func (p *Path) global(g *ssa.Global) *Obj {
	if o, ok := p.globals[g]; ok {
		return o
	}
	// initialise package lazily
	if g.Pkg != nil && !p.initDone[g.Pkg] {
		p.runInit(g.Pkg)
		if o, ok := p.globals[g]; ok {
			return o
		}
	}
	t := g.Type().(*types.Pointer).Elem()
	o := p.newObj(t, p.zero(t), g.String())
	p.globals[g] = o
	return o
}

func (p *Path) runInit(pkg *ssa.Package) {
	p.initDone[pkg] = true
	// allocate all globals first
	for _, m := range pkg.Members {
		if g, ok := m.(*ssa.Global); ok {
			if _, ok := p.globals[g]; !ok {
				t := g.Type().(*types.Pointer).Elem()
				p.globals[g] = p.newObj(t, p.zero(t), g.String())
			}
		}
	}
	init := pkg.Func("init")
	if init == nil || init.Blocks == nil {
		return
	}
	// variables the package's init gives a value: until that store has been executed on
	// this path they are marked, and reading a marked variable ends the path as
	// unsupported (init skipped for this package, or cut short by an unsupported construct)
	for _, g := range p.eng.initStored(pkg) {
		if o := p.globals[g]; o != nil {
			o.Uninit = true
		}
	}
	if p.eng.skipInit[pkg.Pkg.Path()] {
		return
	}
	saved := p.cur
	func() {
		defer func() {
			if r := recover(); r != nil {
				if pa, ok := r.(pathAbort); ok && pa.kind == abUnsupported {
					fmt.Fprintf(p.eng.logw, "note: init of %s stopped early: %s\n", pkg.Pkg.Path(), pa.msg)
					return
				}
				if gp, ok := r.(*GoPanic); ok {
					fmt.Fprintf(p.eng.logw, "note: init of %s panicked: %s\n", pkg.Pkg.Path(), gp.Msg)
					return
				}
				panic(r)
			}
		}()
		p.inInit++
		defer func() { p.inInit-- }()
		p.callFunction(init, nil, nil)
	}()
	p.cur = saved
}

// ---- operand evaluation ----

func (p *Path) constVal(c *ssa.Const) Value {
	t := c.Type()
	if c.Value == nil {
		return p.zero(t)
	}
	switch u := t.Underlying().(type) {
	case *types.Basic:
		switch {
		case u.Info()&types.IsBoolean != 0:
			return p.tt.Bool(constant.BoolVal(c.Value))
		case u.Info()&types.IsInteger != 0:
			w, _ := intWidth(u)
			if i, ok := constant.Int64Val(constant.ToInt(c.Value)); ok {
				return p.tt.Const(w, uint64(i))
			}
			ui, _ := constant.Uint64Val(constant.ToInt(c.Value))
			return p.tt.Const(w, ui)
		case u.Info()&types.IsFloat != 0:
			f, _ := constant.Float64Val(c.Value)
			return p.tt.FPConst(f)
		case u.Info()&types.IsString != 0:
			return p.concStr(constant.StringVal(c.Value))
		}
	case *types.TypeParam:
		panic(p.unsupported("constant of type parameter type"))
	}
	panic(p.unsupported("constant %v of type %v", c, t))
}

func (p *Path) operand(fr *Frame, v ssa.Value) Value {
	switch x := v.(type) {
	case *ssa.Const:
		return p.constVal(x)
	case *ssa.Global:
		return &Ptr{Obj: p.global(x)}
	case *ssa.Function:
		return &Func{Fn: x}
	case *ssa.Builtin:
		return &Func{Builtin: x}
	}
	r, ok := fr.locals[v]
	if !ok {
		panic(p.unsupported("internal: no value for %s (%T) in %s", v.Name(), v, fr.fn))
	}
	return r
}

// ---- calls ----

func (p *Path) callValue(fr *Frame, fv Value, args []Value, site ssa.CallInstruction) Value {
	f, ok := fv.(*Func)
	if !ok {
		panic(p.unsupported("call of non-function %T", fv))
	}
	if f.Nil {
		p.goPanicRuntime("invalid memory address or nil pointer dereference (nil func)")
	}
	if f.Builtin != nil {
		return p.callBuiltin(fr, f.Builtin, args, site)
	}
	if f.Recv != nil {
		args = append([]Value{f.Recv}, args...)
	}
	return p.callFunction(f.Fn, args, f.Env)
}

func (p *Path) callFunction(fn *ssa.Function, args []Value, env []Value) (ret Value) {
	name := fn.String()
	if fn.Origin() != nil {
		// generic instance: also try origin name
	}
	if h := p.eng.lookupIntrinsic(fn, name); h != nil {
		return h(p, fn, args)
	}
	if rd := p.eng.redirect(fn, name); rd != nil {
		skip := false
		for _, n := range p.cfg.NoRedirect {
			if n == name {
				skip = true
			}
		}
		if !skip {
			fn = rd
		}
	}
	if fn.Blocks == nil {
		if p.inInit > 0 {
			// lenient during package init: return zero values
			res := fn.Signature.Results()
			if res.Len() == 0 {
				return nil
			}
			if res.Len() == 1 {
				return p.zero(res.At(0).Type())
			}
			return p.zero(res)
		}
		panic(p.unsupported("callee without body: %s", name))
	}
	p.depth++
	if p.depth > 400 {
		panic(p.unsupported("call depth exceeded"))
	}
	p.eng.noteFunc(p.w, fn)
	fr := &Frame{fn: fn, locals: make(map[ssa.Value]Value, 32), caller: p.cur}
	saved := p.cur
	p.cur = fr
	defer func() {
		p.depth--
		p.cur = saved
	}()
	for i, par := range fn.Params {
		if i < len(args) {
			fr.locals[par] = args[i]
		}
	}
	for i, fv := range fn.FreeVars {
		fr.locals[fv] = env[i]
	}
	return p.runFrame(fr)
}

func (p *Path) runFrame(fr *Frame) (ret Value) {
	defer func() {
		if r := recover(); r != nil {
			gp, ok := r.(*GoPanic)
			if !ok {
				panic(r)
			}
			p.cur = fr
			fr.panic = gp
			p.runDefers(fr)
			if fr.panic != nil {
				panic(fr.panic)
			}
			// recovered: resume at Recover block if present
			if fr.fn.Recover != nil {
				fr.block = fr.fn.Recover
				fr.prev = nil
				ret = p.execBlocks(fr)
				return
			}
			res := fr.fn.Signature.Results()
			switch res.Len() {
			case 0:
				ret = nil
			case 1:
				ret = p.zero(res.At(0).Type())
			default:
				ret = p.zero(res)
			}
		}
	}()
	fr.block = fr.fn.Blocks[0]
	return p.execBlocks(fr)
}

func (p *Path) runDefers(fr *Frame) {
	for len(fr.defers) > 0 {
		d := fr.defers[len(fr.defers)-1]
		fr.defers = fr.defers[:len(fr.defers)-1]
		savedRF := p.recoverFrame
		p.recoverFrame = fr
		func() {
			defer func() {
				p.recoverFrame = savedRF
				if r := recover(); r != nil {
					gp, ok := r.(*GoPanic)
					if !ok {
						panic(r)
					}
					// a new panic in a deferred call replaces the current one
					p.cur = fr
					fr.panic = gp
				}
			}()
			p.invokeCommon(fr, d.call, d.fn, d.args, nil)
		}()
	}
}

// invokeCommon performs a call described by (call, fn value or receiver, args).
func (p *Path) invokeCommon(fr *Frame, call *ssa.CallCommon, fv Value, args []Value, site ssa.CallInstruction) Value {
	if call.IsInvoke() {
		recv := fv.(*Iface)
		if recv.T == nil {
			p.goPanicRuntime("invalid memory address or nil pointer dereference (nil interface method call)")
		}
		fn := p.eng.lookupMethod(recv.T, call.Method)
		if fn == nil {
			panic(p.unsupported("method %s not found on %v", call.Method.Name(), recv.T))
		}
		return p.callFunction(fn, append([]Value{recv.V}, args...), nil)
	}
	return p.callValue(fr, fv, args, site)
}

func (p *Path) evalCall(fr *Frame, call *ssa.CallCommon, site ssa.CallInstruction) Value {
	fv := p.operand(fr, call.Value)
	args := make([]Value, len(call.Args))
	for i, a := range call.Args {
		args[i] = p.operand(fr, a)
	}
	return p.invokeCommon(fr, call, fv, args, site)
}

// ---- block execution ----

func (p *Path) execBlocks(fr *Frame) Value {
	for {
		b := fr.block
		// loop unwinding accounting
		if fr.visits == nil {
			fr.visits = map[int]int{}
			fr.lastSym = map[int]int{}
		}
		if ls, seen := fr.lastSym[b.Index]; seen {
			if ls != p.nsym {
				fr.visits[b.Index]++
				if lim := p.eng.unwindFor(p.cfg, fr.fn); fr.visits[b.Index] > lim {
					p.res.Unwound = fmt.Sprintf("%s block %d", fr.fn, b.Index)
					panic(pathAbort{abUnwound, fmt.Sprintf("loop unwinding bound %d reached in %s (block %d)", lim, fr.fn, b.Index)})
				}
			}
		}
		fr.lastSym[b.Index] = p.nsym
		// phis first (parallel assignment)
		nphi := 0
		var phiVals []Value
		if fr.skipPhi {
			fr.skipPhi = false
			for _, ins := range b.Instrs {
				if _, ok := ins.(*ssa.Phi); !ok {
					break
				}
				nphi++
			}
			goto body
		}
		for _, ins := range b.Instrs {
			phi, ok := ins.(*ssa.Phi)
			if !ok {
				break
			}
			nphi++
			idx := -1
			for i, pred := range b.Preds {
				if pred == fr.prev {
					idx = i
					break
				}
			}
			if idx < 0 {
				panic(p.unsupported("internal: phi predecessor not found"))
			}
			phiVals = append(phiVals, p.operand(fr, phi.Edges[idx]))
		}
		for i := 0; i < nphi; i++ {
			fr.locals[b.Instrs[i].(*ssa.Phi)] = phiVals[i]
		}
	body:
		var next *ssa.BasicBlock
		for _, ins := range b.Instrs[nphi:] {
			p.steps++
			if p.steps > p.cfg.MaxSteps {
				panic(pathAbort{abBudget, fmt.Sprintf("step budget %d exhausted", p.cfg.MaxSteps)})
			}
			switch x := ins.(type) {
			case *ssa.If:
				c := p.operand(fr, x.Cond).(*Term)
				if !c.IsConst() && !p.eng.noIfConv {
					j := p.tryRegionConvert(fr, b, c)
					if j == nil {
						j = p.tryIfConvert(fr, b, c)
					}
					if j != nil {
						next = j
						fr.skipPhi = true
						break
					}
				}
				if p.branch(c) {
					next = b.Succs[0]
				} else {
					next = b.Succs[1]
				}
			case *ssa.Jump:
				next = b.Succs[0]
			case *ssa.Return:
				var ret Value
				switch len(x.Results) {
				case 0:
				case 1:
					ret = p.operand(fr, x.Results[0])
				default:
					tu := &Tuple{V: make([]Value, len(x.Results))}
					for i, r := range x.Results {
						tu.V[i] = p.operand(fr, r)
					}
					ret = tu
				}
				return ret
			case *ssa.Panic:
				v := p.operand(fr, x.X)
				panic(&GoPanic{V: v, Msg: p.panicMsg(v)})
			case *ssa.RunDefers:
				p.runDefers(fr)
				if fr.panic != nil {
					panic(fr.panic)
				}
			default:
				if p.inInit > 0 && fr.fn.Name() == "init" && fr.fn.Synthetic != "" {
					p.execInitInstr(fr, ins)
				} else {
					p.execInstr(fr, ins)
				}
			}
		}
		if next == nil {
			panic(p.unsupported("internal: block without terminator"))
		}
		fr.prev = b
		fr.block = next
	}
}

func (p *Path) panicMsg(v Value) string {
	if i, ok := v.(*Iface); ok && i.T != nil {
		if s, ok := i.V.(*Str); ok {
			if cs, ok := strConcrete(s); ok {
				return cs
			}
			return "<symbolic string>"
		}
		return fmt.Sprintf("<%v>", i.T)
	}
	return "<panic>"
}

func (p *Path) execInstr(fr *Frame, ins ssa.Instruction) {
	tt := p.tt
	switch x := ins.(type) {
	case *ssa.DebugRef:
	case *ssa.Alloc:
		t := x.Type().(*types.Pointer).Elem()
		var o *Obj
		if at, ok := t.Underlying().(*types.Array); ok && isByteType(at.Elem()) {
			o = p.newBuf(int(at.Len()), x.Comment)
			fr.locals[x] = &Ptr{Obj: o, Off: tt.Const(64, 0)}
			return
		}
		o = p.newObj(t, p.zero(t), x.Comment)
		fr.locals[x] = &Ptr{Obj: o}
	case *ssa.Store:
		ptr := p.operand(fr, x.Addr).(*Ptr)
		v := p.operand(fr, x.Val)
		p.store(ptr, x.Val.Type(), v)
	case *ssa.UnOp:
		fr.locals[x] = p.unop(fr, x)
	case *ssa.BinOp:
		fr.locals[x] = p.binop(x.Op, p.operand(fr, x.X), p.operand(fr, x.Y), x.X.Type(), x.Y.Type())
	case *ssa.Call:
		fr.locals[x] = p.evalCall(fr, &x.Call, x)
	case *ssa.Defer:
		fv := p.operand(fr, x.Call.Value)
		args := make([]Value, len(x.Call.Args))
		for i, a := range x.Call.Args {
			args[i] = p.operand(fr, a)
		}
		fr.defers = append(fr.defers, deferred{fn: fv, args: args, call: &x.Call})
	case *ssa.Go:
		if p.eng.goInline {
			p.evalCall(fr, &x.Call, nil)
			return
		}
		panic(p.unsupported("go statement"))
	case *ssa.FieldAddr:
		ptr := p.operand(fr, x.X).(*Ptr)
		if ptr.Obj == nil {
			p.goPanicRuntime("invalid memory address or nil pointer dereference")
		}
		if ptr.Obj.Buf != nil {
			st := x.X.Type().Underlying().(*types.Pointer).Elem().Underlying().(*types.Struct)
			fields := make([]*types.Var, st.NumFields())
			for i := range fields {
				fields[i] = st.Field(i)
			}
			offs := stdSizes.Offsetsof(fields)
			fr.locals[x] = &Ptr{Obj: ptr.Obj, Off: tt.Add(ptr.Off, tt.Const(64, uint64(offs[x.Field])))}
			return
		}
		// struct overlay on a byte cell inside a structured array: keep pointer if field offset is 0
		fr.locals[x] = p.fieldAddr(ptr, x)
	case *ssa.Field:
		s := p.operand(fr, x.X).(*Struct)
		fr.locals[x] = copyVal(s.F[x.Field])
	case *ssa.IndexAddr:
		fr.locals[x] = p.indexAddr(fr, x)
	case *ssa.Index:
		fr.locals[x] = p.index(fr, x)
	case *ssa.Lookup:
		fr.locals[x] = p.lookup(fr, x)
	case *ssa.MapUpdate:
		m := p.operand(fr, x.Map).(*MapRef)
		if m.M == nil {
			panic(&GoPanic{V: &Iface{T: p.eng.errType, V: p.concStr("assignment to entry in nil map")}, Msg: "assignment to entry in nil map", Runtime: true})
		}
		k := p.operand(fr, x.Key)
		v := copyVal(p.operand(fr, x.Value))
		i := p.mapFind(m.M, k)
		if i >= 0 {
			m.M.Vals[i] = v
		} else {
			m.M.Keys = append(m.M.Keys, copyVal(k))
			m.M.Vals = append(m.M.Vals, v)
		}
	case *ssa.MakeMap:
		p.maps++
		fr.locals[x] = &MapRef{M: &MapObj{ID: p.maps, T: x.Type().Underlying().(*types.Map)}}
	case *ssa.MakeSlice:
		n := p.mustInt(p.operand(fr, x.Len).(*Term), "make len")
		c := p.mustInt(p.operand(fr, x.Cap).(*Term), "make cap")
		if n < 0 || c < n {
			p.goPanicRuntime("makeslice: len out of range")
		}
		et := x.Type().Underlying().(*types.Slice).Elem()
		fr.locals[x] = p.makeSlice(et, n, c)
	case *ssa.MakeClosure:
		fn := x.Fn.(*ssa.Function)
		env := make([]Value, len(x.Bindings))
		for i, b := range x.Bindings {
			env[i] = p.operand(fr, b)
		}
		fr.locals[x] = &Func{Fn: fn, Env: env}
	case *ssa.MakeInterface:
		fr.locals[x] = &Iface{T: x.X.Type(), V: copyVal(p.operand(fr, x.X))}
	case *ssa.ChangeInterface:
		fr.locals[x] = p.operand(fr, x.X)
	case *ssa.ChangeType:
		fr.locals[x] = p.operand(fr, x.X)
	case *ssa.Convert:
		fr.locals[x] = p.convert(p.operand(fr, x.X), x.X.Type(), x.Type())
	case *ssa.MultiConvert:
		fr.locals[x] = p.convert(p.operand(fr, x.X), x.X.Type(), x.Type())
	case *ssa.Extract:
		tu := p.operand(fr, x.Tuple).(*Tuple)
		fr.locals[x] = tu.V[x.Index]
	case *ssa.Slice:
		fr.locals[x] = p.sliceOp(fr, x)
	case *ssa.TypeAssert:
		fr.locals[x] = p.typeAssert(fr, x)
	case *ssa.Range:
		fr.locals[x] = p.rangeInit(fr, x)
	case *ssa.Next:
		fr.locals[x] = p.rangeNext(fr, x)
	case *ssa.SliceToArrayPointer:
		s := p.operand(fr, x.X).(*Slice)
		if s.Obj == nil {
			fr.locals[x] = &Ptr{}
			return
		}
		if s.Obj.Buf != nil {
			fr.locals[x] = &Ptr{Obj: s.Obj, Off: s.Off}
			return
		}
		panic(p.unsupported("slice to array pointer on structured array"))
	case *ssa.MakeChan:
		fr.locals[x] = &Opaque{Kind: "chan", Data: x}
	case *ssa.Send:
		panic(p.unsupported("channel send"))
	case *ssa.Select:
		panic(p.unsupported("select"))
	default:
		panic(p.unsupported("instruction %T", ins))
	}
}

func (p *Path) fieldAddr(ptr *Ptr, x *ssa.FieldAddr) *Ptr {
	return &Ptr{Obj: ptr.Obj, Path: appendPath(ptr.Path, PathEl{Field: x.Field})}
}

func (p *Path) makeSlice(et types.Type, n, c int) *Slice {
	tt := p.tt
	if isByteType(et) {
		o := p.newBuf(c, "make([]byte)")
		return &Slice{Obj: o, Off: tt.Const(64, 0), Len: tt.Const(64, uint64(n)), Cap: tt.Const(64, uint64(c))}
	}
	a := &Arr{E: make([]Value, c)}
	for i := range a.E {
		a.E[i] = p.zero(et)
	}
	o := p.newObj(types.NewArray(et, int64(c)), a, "make([]T)")
	return &Slice{Obj: o, Off: tt.Const(64, 0), Len: tt.Const(64, uint64(n)), Cap: tt.Const(64, uint64(c))}
}

func (p *Path) boundsCheck(idx *Term, n *Term, what string) {
	// unsigned comparison handles negative indices
	ok := p.tt.Ult(idx, n)
	if !p.branch(ok) {
		p.goPanicRuntime("index out of range (" + what + ")")
	}
}

func (p *Path) toI64(t *Term, typ types.Type) *Term {
	if t.S.W == 64 {
		return t
	}
	_, signed := typeWidth(typ)
	if signed {
		return p.tt.SExt(t, 64)
	}
	return p.tt.ZExt(t, 64)
}

func (p *Path) indexAddr(fr *Frame, x *ssa.IndexAddr) Value {
	tt := p.tt
	idx := p.toI64(p.operand(fr, x.Index).(*Term), x.Index.Type())
	base := p.operand(fr, x.X)
	switch b := base.(type) {
	case *Slice:
		if b.Obj == nil {
			p.goPanicRuntime("index out of range (nil slice)")
		}
		p.boundsCheck(idx, b.Len, "slice")
		et := x.X.Type().Underlying().(*types.Slice).Elem()
		return p.sliceElemPtr(b, idx, et)
	case *Ptr:
		if b.Obj == nil {
			p.goPanicRuntime("invalid memory address or nil pointer dereference")
		}
		at := x.X.Type().Underlying().(*types.Pointer).Elem().Underlying().(*types.Array)
		p.boundsCheck(idx, tt.Const(64, uint64(at.Len())), "array")
		if b.Obj.Buf != nil {
			es := uint64(stdSizes.Sizeof(at.Elem()))
			return &Ptr{Obj: b.Obj, Off: tt.Add(b.Off, tt.Mul(idx, tt.Const(64, es)))}
		}
		return &Ptr{Obj: b.Obj, Path: appendPath(b.Path, PathEl{Idx: idx})}
	}
	panic(p.unsupported("IndexAddr on %T", base))
}

func (p *Path) index(fr *Frame, x *ssa.Index) Value {
	tt := p.tt
	idx := p.toI64(p.operand(fr, x.Index).(*Term), x.Index.Type())
	base := p.operand(fr, x.X)
	switch b := base.(type) {
	case *Arr:
		p.boundsCheck(idx, tt.Const(64, uint64(len(b.E))), "array")
		if i, ok := p.cint(idx); ok {
			return copyVal(b.E[i])
		}
		if len(b.E) > 0 {
			if _, isT := b.E[0].(*Term); isT {
				r := b.E[len(b.E)-1].(*Term)
				for i := len(b.E) - 2; i >= 0; i-- {
					r = tt.Ite(tt.Eq(idx, tt.Const(64, uint64(i))), b.E[i].(*Term), r)
				}
				return r
			}
		}
		i := p.mustInt(idx, "array index")
		return copyVal(b.E[i])
	case *Str:
		return p.strIndex(b, idx)
	}
	panic(p.unsupported("Index on %T", base))
}

func (p *Path) strIndex(s *Str, idx *Term) *Term {
	tt := p.tt
	p.boundsCheck(idx, tt.Const(64, uint64(len(s.B))), "string")
	if i, ok := p.cint(idx); ok {
		return s.B[i]
	}
	r := s.B[len(s.B)-1]
	for i := len(s.B) - 2; i >= 0; i-- {
		r = tt.Ite(tt.Eq(idx, tt.Const(64, uint64(i))), s.B[i], r)
	}
	return r
}

func (p *Path) mapFind(m *MapObj, k Value) int {
	for i, mk := range m.Keys {
		if p.branch(p.eqValue(mk, k)) {
			return i
		}
	}
	return -1
}

func (p *Path) lookup(fr *Frame, x *ssa.Lookup) Value {
	base := p.operand(fr, x.X)
	switch b := base.(type) {
	case *Str:
		idx := p.toI64(p.operand(fr, x.Index).(*Term), x.Index.Type())
		return p.strIndex(b, idx)
	case *MapRef:
		k := p.operand(fr, x.Index)
		vt := x.X.Type().Underlying().(*types.Map).Elem()
		var v Value
		found := false
		if b.M != nil {
			if i := p.mapFind(b.M, k); i >= 0 {
				v = copyVal(b.M.Vals[i])
				found = true
			}
		}
		if !found {
			v = p.zero(vt)
		}
		if x.CommaOk {
			return &Tuple{V: []Value{v, p.tt.Bool(found)}}
		}
		return v
	}
	panic(p.unsupported("Lookup on %T", base))
}

func (p *Path) sliceOp(fr *Frame, x *ssa.Slice) Value {
	tt := p.tt
	base := p.operand(fr, x.X)
	get := func(v ssa.Value) *Term {
		if v == nil {
			return nil
		}
		return p.toI64(p.operand(fr, v).(*Term), v.Type())
	}
	lo, hi, mx := get(x.Low), get(x.High), get(x.Max)
	zero := tt.Const(64, 0)
	if lo == nil {
		lo = zero
	}
	switch b := base.(type) {
	case *Str:
		n := len(b.B)
		l := p.mustIntChecked(lo, n, "string slice low")
		h := n
		if hi != nil {
			h = p.mustIntChecked(hi, n, "string slice high")
		}
		if l > h {
			p.goPanicRuntime("slice bounds out of range")
		}
		return &Str{B: b.B[l:h]}
	case *Slice:
		if b.Obj == nil {
			// nil slice: only [0:0] allowed
			if hi == nil {
				hi = zero
			}
			if !p.branch(tt.And(tt.Eq(lo, zero), tt.Eq(hi, zero))) {
				p.goPanicRuntime("slice bounds out of range")
			}
			return &Slice{}
		}
		if hi == nil {
			hi = b.Len
		}
		capT := b.Cap
		if mx != nil {
			if !p.branch(tt.Ule(mx, b.Cap)) {
				p.goPanicRuntime("slice bounds out of range (max)")
			}
			capT = mx
		}
		if !p.branch(tt.Ule(hi, capT)) {
			p.goPanicRuntime("slice bounds out of range [:hi] with capacity")
		}
		if !p.branch(tt.Ule(lo, hi)) {
			p.goPanicRuntime("slice bounds out of range [lo:hi]")
		}
		scale := tt.Const(64, 1)
		if b.Obj.Buf != nil {
			et := x.X.Type().Underlying().(*types.Slice).Elem()
			if !isByteType(et) {
				scale = tt.Const(64, uint64(stdSizes.Sizeof(et)))
			}
		}
		return &Slice{Obj: b.Obj, Path: b.Path, Off: tt.Add(b.Off, tt.Mul(lo, scale)), Len: tt.Sub(hi, lo), Cap: tt.Sub(capT, lo)}
	case *Ptr:
		// pointer to array
		if b.Obj == nil {
			p.goPanicRuntime("invalid memory address or nil pointer dereference")
		}
		at := x.X.Type().Underlying().(*types.Pointer).Elem().Underlying().(*types.Array)
		n := tt.Const(64, uint64(at.Len()))
		if hi == nil {
			hi = n
		}
		capT := n
		if mx != nil {
			if !p.branch(tt.Ule(mx, n)) {
				p.goPanicRuntime("slice bounds out of range (max)")
			}
			capT = mx
		}
		if !p.branch(tt.Ule(hi, capT)) {
			p.goPanicRuntime("slice bounds out of range [:hi]")
		}
		if !p.branch(tt.Ule(lo, hi)) {
			p.goPanicRuntime("slice bounds out of range [lo:hi]")
		}
		if b.Obj.Buf != nil {
			es := tt.Const(64, uint64(stdSizes.Sizeof(at.Elem())))
			return &Slice{Obj: b.Obj, Off: tt.Add(b.Off, tt.Mul(lo, es)), Len: tt.Sub(hi, lo), Cap: tt.Sub(capT, lo)}
		}
		return &Slice{Obj: b.Obj, Path: b.Path, Off: lo, Len: tt.Sub(hi, lo), Cap: tt.Sub(capT, lo)}
	}
	panic(p.unsupported("Slice on %T", base))
}

// mustIntChecked concretizes t after checking 0 <= t <= n (else Go panic).
func (p *Path) mustIntChecked(t *Term, n int, what string) int {
	if !p.branch(p.tt.Ule(t, p.tt.Const(64, uint64(n)))) {
		p.goPanicRuntime("slice bounds out of range (" + what + ")")
	}
	return p.mustInt(t, what)
}

func (p *Path) typeAssert(fr *Frame, x *ssa.TypeAssert) Value {
	iv := p.operand(fr, x.X).(*Iface)
	ok := false
	var v Value
	if iv.T != nil {
		if types.IsInterface(x.AssertedType) {
			it := x.AssertedType.Underlying().(*types.Interface)
			ok = types.Implements(iv.T, it)
			v = iv
		} else {
			ok = types.Identical(iv.T, x.AssertedType)
			v = iv.V
		}
	}
	if x.CommaOk {
		if !ok {
			v = p.zero(x.AssertedType)
		}
		return &Tuple{V: []Value{v, p.tt.Bool(ok)}}
	}
	if !ok {
		p.goPanicRuntime(fmt.Sprintf("interface conversion: interface is %v, not %v", iv.T, x.AssertedType))
	}
	return v
}

type rangeIter struct {
	m    *MapObj
	keys []Value
	vals []Value
	s    *Str
	i    int
}

func (p *Path) rangeInit(fr *Frame, x *ssa.Range) Value {
	v := p.operand(fr, x.X)
	switch b := v.(type) {
	case *MapRef:
		it := &rangeIter{}
		if b.M != nil {
			it.m = b.M
			it.keys = append([]Value{}, b.M.Keys...)
			order := p.eng.mapOrder(p, len(it.keys))
			if order != nil {
				nk := make([]Value, len(it.keys))
				for i, j := range order {
					nk[i] = it.keys[j]
				}
				it.keys = nk
			}
		}
		return &Opaque{Kind: "iter", Data: it}
	case *Str:
		return &Opaque{Kind: "iter", Data: &rangeIter{s: b}}
	}
	panic(p.unsupported("range over %T", v))
}

func (p *Path) rangeNext(fr *Frame, x *ssa.Next) Value {
	it := p.operand(fr, x.Iter).(*Opaque).Data.(*rangeIter)
	tt := p.tt
	if x.IsString {
		if it.i >= len(it.s.B) {
			return &Tuple{V: []Value{tt.False(), tt.Const(64, 0), tt.Const(32, 0)}}
		}
		b := it.s.B[it.i]
		if !b.IsConst() {
			idx := it.i
			if p.branch(tt.Ult(b, tt.Const(8, 0x80))) {
				it.i++
				return &Tuple{V: []Value{tt.True(), tt.Const(64, uint64(idx)), tt.ZExt(b, 32)}}
			}
			// symbolic non-ASCII byte: UTF-8 decoding by classes. Two-byte sequences and
			// invalid lead/continuation bytes are exact; three- and four-byte leads are
			// not modelled.
			if p.branch(tt.And(tt.Ule(tt.Const(8, 0xE0), b), tt.Ule(b, tt.Const(8, 0xF7)))) {
				panic(p.unsupported("range over string with a symbolic 3/4-byte UTF-8 lead"))
			}
			if p.branch(tt.And(tt.Ule(tt.Const(8, 0xC2), b), tt.Ule(b, tt.Const(8, 0xDF)))) && it.i+1 < len(it.s.B) {
				b1 := it.s.B[it.i+1]
				if p.branch(tt.And(tt.Ule(tt.Const(8, 0x80), b1), tt.Ule(b1, tt.Const(8, 0xBF)))) {
					it.i += 2
					r := tt.BOr(tt.Shl(tt.ZExt(tt.BAnd(b, tt.Const(8, 0x1F)), 32), tt.Const(32, 6)), tt.ZExt(tt.BAnd(b1, tt.Const(8, 0x3F)), 32))
					return &Tuple{V: []Value{tt.True(), tt.Const(64, uint64(idx)), r}}
				}
			}
			it.i++
			return &Tuple{V: []Value{tt.True(), tt.Const(64, uint64(idx)), tt.Const(32, 0xFFFD)}}
		}
		// concrete: decode natively
		rest := make([]byte, 0, 4)
		for j := it.i; j < len(it.s.B) && j < it.i+4; j++ {
			if !it.s.B[j].IsConst() {
				break
			}
			rest = append(rest, byte(it.s.B[j].C))
		}
		r, size := decodeRune(rest)
		idx := it.i
		it.i += size
		return &Tuple{V: []Value{tt.True(), tt.Const(64, uint64(idx)), tt.Const(32, uint64(r))}}
	}
	// map: skip keys deleted since the iteration began
	for it.i < len(it.keys) {
		k := it.keys[it.i]
		it.i++
		// find current value (key identity by position in map's key list)
		for j, mk := range it.m.Keys {
			if mk == k || sameValue(mk, k) {
				return &Tuple{V: []Value{tt.True(), k, copyVal(it.m.Vals[j])}}
			}
		}
	}
	mt := x.Iter.(*ssa.Range).X.Type().Underlying().(*types.Map)
	return &Tuple{V: []Value{tt.False(), p.zero(mt.Key()), p.zero(mt.Elem())}}
}

func sameValue(a, b Value) bool { return a == b }

func decodeRune(b []byte) (rune, int) {
	for i, r := range string(b) {
		if i == 0 {
			n := len(string(r))
			if r == 0xFFFD {
				return r, 1
			}
			return r, n
		}
	}
	return 0xFFFD, 1
}

// ---- unary / binary / convert ----

func (p *Path) unop(fr *Frame, x *ssa.UnOp) Value {
	tt := p.tt
	v := p.operand(fr, x.X)
	switch x.Op {
	case token.MUL:
		return p.load(v.(*Ptr), x.Type())
	case token.NOT:
		return tt.Not(v.(*Term))
	case token.SUB:
		t := v.(*Term)
		if t.S.K == SFP {
			return tt.FPUn(OFPNeg, t)
		}
		return tt.Neg(t)
	case token.XOR:
		return tt.BNot(v.(*Term))
	case token.ARROW:
		panic(p.unsupported("channel receive"))
	}
	panic(p.unsupported("unop %v", x.Op))
}

func (p *Path) binop(op token.Token, a, b Value, ta, tb types.Type) Value {
	tt := p.tt
	switch op {
	case token.EQL:
		return p.eqValue(a, b)
	case token.NEQ:
		return tt.Not(p.eqValue(a, b))
	}
	switch x := a.(type) {
	case *Str:
		y := b.(*Str)
		switch op {
		case token.ADD:
			nb := make([]*Term, 0, len(x.B)+len(y.B))
			nb = append(nb, x.B...)
			nb = append(nb, y.B...)
			return &Str{B: nb}
		case token.LSS:
			return p.strLess(x, y, false)
		case token.LEQ:
			return p.strLess(x, y, true)
		case token.GTR:
			return p.strLess(y, x, false)
		case token.GEQ:
			return p.strLess(y, x, true)
		}
	case *Term:
		y := b.(*Term)
		if x.S.K == SFP {
			switch op {
			case token.ADD:
				return tt.fpBin(OFPAdd, x, y)
			case token.SUB:
				return tt.fpBin(OFPSub, x, y)
			case token.MUL:
				return tt.fpBin(OFPMul, x, y)
			case token.QUO:
				return tt.fpBin(OFPDiv, x, y)
			case token.LSS:
				return tt.FPLt(x, y)
			case token.LEQ:
				return tt.FPLe(x, y)
			case token.GTR:
				return tt.FPLt(y, x)
			case token.GEQ:
				return tt.FPLe(y, x)
			}
			panic(p.unsupported("float binop %v", op))
		}
		if x.S.K == SBool {
			switch op {
			case token.AND, token.LAND:
				return tt.And(x, y)
			case token.OR, token.LOR:
				return tt.Or(x, y)
			}
			panic(p.unsupported("bool binop %v", op))
		}
		_, signed := typeWidth(ta)
		switch op {
		case token.ADD:
			return tt.Add(x, y)
		case token.SUB:
			return tt.Sub(x, y)
		case token.MUL:
			return tt.Mul(x, y)
		case token.QUO, token.REM:
			if !p.branch(tt.Not(tt.Eq(y, tt.Const(y.S.W, 0)))) {
				p.goPanicRuntime("integer divide by zero")
			}
			if signed {
				if op == token.QUO {
					return tt.SDiv(x, y)
				}
				return tt.SRem(x, y)
			}
			if op == token.QUO {
				return tt.UDiv(x, y)
			}
			return tt.URem(x, y)
		case token.AND:
			return tt.BAnd(x, y)
		case token.OR:
			return tt.BOr(x, y)
		case token.XOR:
			return tt.BXor(x, y)
		case token.AND_NOT:
			return tt.BAnd(x, tt.BNot(y))
		case token.SHL, token.SHR:
			// shift count may have a different width and be signed
			_, ysigned := typeWidth(tb)
			if ysigned {
				if !p.branch(tt.Sle(tt.Const(y.S.W, 0), y)) {
					p.goPanicRuntime("negative shift amount")
				}
			}
			w := x.S.W
			var cnt *Term
			var big *Term // count >= w
			if y.S.W > w {
				big = tt.Ule(tt.Const(y.S.W, uint64(w)), y)
				cnt = tt.Extract(y, w-1, 0)
			} else {
				cnt = tt.ZExt(y, w)
				big = tt.False()
				if w < 64 || true {
					big = tt.Ule(tt.Const(w, uint64(w)), cnt)
				}
			}
			var r *Term
			if op == token.SHL {
				r = tt.Ite(big, tt.Const(w, 0), tt.Shl(x, cnt))
			} else if signed {
				r = tt.Ite(big, tt.AShr(x, tt.Const(w, uint64(w-1))), tt.AShr(x, cnt))
			} else {
				r = tt.Ite(big, tt.Const(w, 0), tt.LShr(x, cnt))
			}
			return r
		case token.LSS:
			if signed {
				return tt.Slt(x, y)
			}
			return tt.Ult(x, y)
		case token.LEQ:
			if signed {
				return tt.Sle(x, y)
			}
			return tt.Ule(x, y)
		case token.GTR:
			if signed {
				return tt.Slt(y, x)
			}
			return tt.Ult(y, x)
		case token.GEQ:
			if signed {
				return tt.Sle(y, x)
			}
			return tt.Ule(y, x)
		}
	}
	panic(p.unsupported("binop %v on %T", op, a))
}

func (p *Path) strLess(x, y *Str, orEq bool) *Term {
	tt := p.tt
	n := len(x.B)
	if len(y.B) < n {
		n = len(y.B)
	}
	// result when common prefix equal
	var r *Term
	if len(x.B) < len(y.B) {
		r = tt.True()
	} else if len(x.B) == len(y.B) {
		r = tt.Bool(orEq)
	} else {
		r = tt.False()
	}
	for i := n - 1; i >= 0; i-- {
		r = tt.Ite(tt.Eq(x.B[i], y.B[i]), r, tt.Ult(x.B[i], y.B[i]))
	}
	return r
}

func (p *Path) convert(v Value, from, to types.Type) Value {
	tt := p.tt
	fu, tu := from.Underlying(), to.Underlying()
	switch t := tu.(type) {
	case *types.Basic:
		switch {
		case t.Info()&types.IsInteger != 0:
			tw, _ := intWidth(t)
			if fb, ok := fu.(*types.Basic); ok {
				if fb.Info()&types.IsInteger != 0 {
					x := v.(*Term)
					_, fs := intWidth(fb)
					if tw <= x.S.W {
						return tt.Extract(x, tw-1, 0)
					}
					if fs {
						return tt.SExt(x, tw)
					}
					return tt.ZExt(x, tw)
				}
				if fb.Info()&types.IsFloat != 0 {
					_, ts := intWidth(t)
					return tt.FPToInt(v.(*Term), tw, ts)
				}
				if fb.Kind() == types.UnsafePointer {
					if pv, ok := v.(*Ptr); ok && pv.Obj == nil {
						return tt.Const(64, 0)
					}
					return &Opaque{Kind: "ptrint", Data: v}
				}
			}
			if _, ok := fu.(*types.Pointer); ok {
				return &Opaque{Kind: "ptrint", Data: v}
			}
		case t.Info()&types.IsFloat != 0:
			if fb, ok := fu.(*types.Basic); ok {
				if fb.Info()&types.IsInteger != 0 {
					_, fs := intWidth(fb)
					return tt.IntToFP(v.(*Term), fs)
				}
				if fb.Info()&types.IsFloat != 0 {
					return v
				}
			}
		case t.Info()&types.IsString != 0:
			switch f := fu.(type) {
			case *types.Basic:
				if f.Info()&types.IsString != 0 {
					return v
				}
				if f.Info()&types.IsInteger != 0 {
					x := v.(*Term)
					if x.IsConst() {
						return p.concStr(string(rune(sext(x.C, x.S.W))))
					}
					// symbolic rune: ASCII only
					if !p.branch(tt.Ult(tt.ZExt(x, 64), tt.Const(64, 0x80))) {
						panic(p.unsupported("string(rune) of symbolic non-ASCII"))
					}
					return &Str{B: []*Term{tt.Extract(x, 7, 0)}}
				}
			case *types.Slice:
				s := v.(*Slice)
				if isByteType(f.Elem()) {
					return &Str{B: p.sliceBytes(s)}
				}
				// []rune -> string : concrete only
				if s.Obj == nil {
					return &Str{}
				}
				n := p.mustInt(s.Len, "[]rune len")
				var sb strings.Builder
				for i := 0; i < n; i++ {
					e := p.load(p.sliceElemPtr(s, tt.Const(64, uint64(i)), f.Elem()), f.Elem()).(*Term)
					if !e.IsConst() {
						if !p.branch(tt.Ult(e, tt.Const(32, 0x80))) {
							panic(p.unsupported("string([]rune) symbolic non-ASCII"))
						}
						panic(p.unsupported("string([]rune) symbolic"))
					}
					sb.WriteRune(rune(sext(e.C, 32)))
				}
				return p.concStr(sb.String())
			}
		case t.Kind() == types.UnsafePointer:
			if o, ok := v.(*Opaque); ok && o.Kind == "ptrint" {
				return o.Data
			}
			if tv, ok := v.(*Term); ok {
				if tv.IsConst() && tv.C == 0 {
					return &Ptr{}
				}
				panic(p.unsupported("integer to unsafe.Pointer"))
			}
			return v
		}
	case *types.Slice:
		if fb, ok := fu.(*types.Basic); ok && fb.Info()&types.IsString != 0 {
			s := v.(*Str)
			if isByteType(t.Elem()) {
				return p.bytesToSlice(s.B, "[]byte(string)")
			}
			// []rune(string): concrete / ASCII
			out := make([]Value, 0, len(s.B))
			cs, ok := strConcrete(s)
			if ok {
				for _, r := range cs {
					out = append(out, tt.Const(32, uint64(r)))
				}
			} else {
				for _, b := range s.B {
					if !p.branch(tt.Ult(b, tt.Const(8, 0x80))) {
						panic(p.unsupported("[]rune(string) with symbolic non-ASCII byte"))
					}
					out = append(out, tt.ZExt(b, 32))
				}
			}
			o := p.newObj(types.NewArray(t.Elem(), int64(len(out))), &Arr{E: out}, "[]rune")
			n := tt.Const(64, uint64(len(out)))
			return &Slice{Obj: o, Off: tt.Const(64, 0), Len: n, Cap: n}
		}
		return v
	case *types.Pointer:
		if o, ok := v.(*Opaque); ok && o.Kind == "ptrint" {
			return o.Data
		}
		return v
	}
	if types.Identical(fu, tu) {
		return v
	}
	panic(p.unsupported("convert %v -> %v", from, to))
}

func float64bits(f float64) uint64 { return math.Float64bits(f) }


// ---- if-conversion of side-effect-free diamonds ----

// forwardTarget returns the join block if blk (a successor of b) is a pure forwarding side
// block: single predecessor, ends in Jump.
func sideJoin(b, blk *ssa.BasicBlock) *ssa.BasicBlock {
	if len(blk.Preds) != 1 || blk.Preds[0] != b {
		return nil
	}
	if len(blk.Instrs) == 0 || len(blk.Instrs) > 24 {
		return nil
	}
	if _, ok := blk.Instrs[len(blk.Instrs)-1].(*ssa.Jump); !ok {
		return nil
	}
	return blk.Succs[0]
}

// speculate executes the pure instructions of a side block; returns false if anything
// could trap, fork or have a side effect.
func (p *Path) speculate(fr *Frame, blk *ssa.BasicBlock) (ok bool) {
	defer func() {
		p.spec = false
		if r := recover(); r != nil {
			switch r.(type) {
			case specAbort, *GoPanic:
				ok = false
			case pathAbort:
				ok = false
			default:
				panic(r)
			}
		}
	}()
	p.spec = true
	for _, ins := range blk.Instrs[:len(blk.Instrs)-1] {
		switch x := ins.(type) {
		case *ssa.BinOp, *ssa.Convert, *ssa.ChangeType, *ssa.Extract, *ssa.Field, *ssa.FieldAddr,
			*ssa.IndexAddr, *ssa.Index, *ssa.Slice, *ssa.MakeInterface, *ssa.ChangeInterface, *ssa.DebugRef:
			p.execInstr(fr, ins)
		case *ssa.UnOp:
			p.execInstr(fr, ins)
		case *ssa.Lookup:
			if _, isMap := x.X.Type().Underlying().(*types.Map); isMap {
				return false
			}
			p.execInstr(fr, ins)
		case *ssa.Call:
			bi, isB := x.Call.Value.(*ssa.Builtin)
			if !isB || (bi.Name() != "len" && bi.Name() != "cap" && bi.Name() != "min" && bi.Name() != "max") {
				return false
			}
			p.execInstr(fr, ins)
		default:
			return false
		}
	}
	return true
}

func (p *Path) iteValue(c *Term, a, b Value) (Value, bool) {
	switch x := a.(type) {
	case *Term:
		y, ok := b.(*Term)
		if !ok || x.S != y.S {
			return nil, false
		}
		return p.tt.Ite(c, x, y), true
	case *Str:
		y, ok := b.(*Str)
		if !ok || len(x.B) != len(y.B) {
			return nil, false
		}
		out := make([]*Term, len(x.B))
		for i := range out {
			out[i] = p.tt.Ite(c, x.B[i], y.B[i])
		}
		return &Str{B: out}, true
	case *Ptr:
		y, ok := b.(*Ptr)
		if ok && x.Obj == nil && y.Obj == nil {
			return x, true
		}
		if ok && x == y {
			return x, true
		}
	case *Iface:
		y, ok := b.(*Iface)
		if ok && x.T == nil && y.T == nil {
			return x, true
		}
		if ok && x == y {
			return x, true
		}
	}
	if a == b {
		return a, true
	}
	return nil, false
}

// tryIfConvert recognises  b: if c goto s0 else s1  where s0/s1 are pure side blocks (or
// the join itself) and merges the join block's phis with ite instead of forking.
func (p *Path) tryIfConvert(fr *Frame, b *ssa.BasicBlock, c *Term) *ssa.BasicBlock {
	s0, s1 := b.Succs[0], b.Succs[1]
	var j *ssa.BasicBlock
	var side0, side1 *ssa.BasicBlock
	j0, j1 := sideJoin(b, s0), sideJoin(b, s1)
	switch {
	case j0 != nil && j0 == s1:
		j, side0 = s1, s0
	case j1 != nil && j1 == s0:
		j, side1 = s0, s1
	case j0 != nil && j0 == j1:
		j, side0, side1 = j0, s0, s1
	default:
		return nil
	}
	if j == b || j == s0 && j == s1 {
		return nil
	}
	// j must start with phis covering the difference (or have none, if sides are empty)
	if side0 != nil && !p.speculate(fr, side0) {
		return nil
	}
	if side1 != nil && !p.speculate(fr, side1) {
		return nil
	}
	pred0, pred1 := b, b
	if side0 != nil {
		pred0 = side0
	}
	if side1 != nil {
		pred1 = side1
	}
	idx0, idx1 := -1, -1
	for i, pr := range j.Preds {
		if pr == pred0 && idx0 < 0 {
			idx0 = i
		}
		if pr == pred1 {
			idx1 = i
		}
	}
	if pred0 == pred1 {
		// both edges come from b itself (degenerate); cannot distinguish
		return nil
	}
	if idx0 < 0 || idx1 < 0 {
		return nil
	}
	var phis []*ssa.Phi
	var vals []Value
	for _, ins := range j.Instrs {
		phi, ok := ins.(*ssa.Phi)
		if !ok {
			break
		}
		v0 := p.operand(fr, phi.Edges[idx0])
		v1 := p.operand(fr, phi.Edges[idx1])
		m, ok := p.iteValue(c, v0, v1)
		if !ok {
			return nil
		}
		phis = append(phis, phi)
		vals = append(vals, m)
	}
	for i, phi := range phis {
		fr.locals[phi] = vals[i]
	}
	p.nIfConv++
	return j
}


// ---- region if-conversion: short-circuit conditions and nested pure diamonds ----

type arrival struct {
	pred  *ssa.BasicBlock
	guard *Term
}

// speculateBody executes the non-phi, non-terminator instructions of blk in speculative
// mode (no forks, no side effects); false if anything is not pure.
func (p *Path) speculateBody(fr *Frame, blk *ssa.BasicBlock) (ok bool) {
	defer func() {
		p.spec = false
		if r := recover(); r != nil {
			switch r.(type) {
			case specAbort, *GoPanic, pathAbort:
				ok = false
			default:
				panic(r)
			}
		}
	}()
	p.spec = true
	n := len(blk.Instrs) - 1
	for _, ins := range blk.Instrs[:n] {
		switch x := ins.(type) {
		case *ssa.Phi:
			continue
		case *ssa.BinOp, *ssa.Convert, *ssa.ChangeType, *ssa.Extract, *ssa.Field, *ssa.FieldAddr,
			*ssa.IndexAddr, *ssa.Index, *ssa.Slice, *ssa.MakeInterface, *ssa.ChangeInterface, *ssa.DebugRef, *ssa.UnOp:
			p.execInstr(fr, ins)
		case *ssa.Lookup:
			if _, isMap := x.X.Type().Underlying().(*types.Map); isMap {
				return false
			}
			p.execInstr(fr, ins)
		case *ssa.Call:
			bi, isB := x.Call.Value.(*ssa.Builtin)
			if !isB || (bi.Name() != "len" && bi.Name() != "cap" && bi.Name() != "min" && bi.Name() != "max") {
				return false
			}
			p.execInstr(fr, ins)
		default:
			return false
		}
	}
	return true
}

// mergePhis sets the phis of blk from the given arrivals (guards mutually exclusive).
func (p *Path) mergePhis(fr *Frame, blk *ssa.BasicBlock, arrs []arrival) bool {
	var phis []*ssa.Phi
	var vals []Value
	for _, ins := range blk.Instrs {
		phi, ok := ins.(*ssa.Phi)
		if !ok {
			break
		}
		var r Value
		for k := len(arrs) - 1; k >= 0; k-- {
			idx := -1
			for i, pr := range blk.Preds {
				if pr == arrs[k].pred {
					idx = i
					break
				}
			}
			if idx < 0 {
				return false
			}
			v := p.operand(fr, phi.Edges[idx])
			if r == nil {
				r = v
				continue
			}
			m, ok := p.iteValue(arrs[k].guard, v, r)
			if !ok {
				return false
			}
			r = m
		}
		phis = append(phis, phi)
		vals = append(vals, r)
	}
	for i, phi := range phis {
		fr.locals[phi] = vals[i]
	}
	return true
}

// tryRegionConvert merges an acyclic region of pure blocks hanging off the conditional
// branch at the end of b (short-circuit && / || chains, nested value diamonds) into
// guarded ite values, and returns the single block where control continues, or nil.
func (p *Path) tryRegionConvert(fr *Frame, b *ssa.BasicBlock, c *Term) (join *ssa.BasicBlock) {
	const maxBlocks = 24
	defer func() {
		if r := recover(); r != nil {
			p.spec = false
			switch r.(type) {
			case specAbort, *GoPanic, pathAbort:
				join = nil
			default:
				panic(r)
			}
		}
	}()
	tt := p.tt
	arrivals := map[*ssa.BasicBlock][]arrival{}
	var order []*ssa.BasicBlock
	add := func(pred, t *ssa.BasicBlock, g *Term) {
		if g.IsFalse() {
			return
		}
		as, seen := arrivals[t]
		if !seen {
			order = append(order, t)
		}
		for i := range as {
			if as[i].pred == pred {
				as[i].guard = tt.Or(as[i].guard, g)
				return
			}
		}
		arrivals[t] = append(as, arrival{pred, g})
	}
	add(b, b.Succs[0], c)
	add(b, b.Succs[1], tt.Not(c))
	processed := map[*ssa.BasicBlock]bool{b: true}
	n := 0
	for {
		var T *ssa.BasicBlock
		for _, t := range order {
			if processed[t] || t == b {
				continue
			}
			ok := true
			for _, pr := range t.Preds {
				if !processed[pr] {
					ok = false
					break
				}
			}
			if !ok {
				continue
			}
			// terminator must be Jump or If
			switch t.Instrs[len(t.Instrs)-1].(type) {
			case *ssa.Jump, *ssa.If:
			default:
				continue
			}
			if len(t.Instrs) > 32 {
				continue
			}
			T = t
			break
		}
		if T == nil {
			break
		}
		n++
		if n > maxBlocks {
			return nil
		}
		arrs := arrivals[T]
		if !p.mergePhis(fr, T, arrs) {
			return nil
		}
		if !p.speculateBody(fr, T) {
			// not pure: T is where control must continue; it stays unprocessed
			processed[T] = false
			// mark as terminal by removing eligibility: use a sentinel
			return p.finishRegion(fr, b, order, processed, arrivals, T)
		}
		processed[T] = true
		var g *Term
		for _, a := range arrs {
			if g == nil {
				g = a.guard
			} else {
				g = tt.Or(g, a.guard)
			}
		}
		switch x := T.Instrs[len(T.Instrs)-1].(type) {
		case *ssa.Jump:
			add(T, T.Succs[0], g)
		case *ssa.If:
			cv, ok := p.operand(fr, x.Cond).(*Term)
			if !ok {
				return nil
			}
			add(T, T.Succs[0], tt.And(g, cv))
			add(T, T.Succs[1], tt.And(g, tt.Not(cv)))
		}
	}
	return p.finishRegion(fr, b, order, processed, arrivals, nil)
}

func (p *Path) finishRegion(fr *Frame, b *ssa.BasicBlock, order []*ssa.BasicBlock, processed map[*ssa.BasicBlock]bool, arrivals map[*ssa.BasicBlock][]arrival, impure *ssa.BasicBlock) *ssa.BasicBlock {
	var J *ssa.BasicBlock
	for _, t := range order {
		if processed[t] && t != b {
			continue
		}
		if J != nil {
			return nil // control can continue in two different places
		}
		J = t
	}
	if J == nil || J == b {
		return nil
	}
	if impure != nil && J != impure {
		return nil
	}
	nproc := 0
	for t, ok := range processed {
		if ok && t != b {
			nproc++
		}
	}
	if nproc == 0 && len(arrivals[J]) < 2 {
		return nil // nothing merged
	}
	if !p.mergePhis(fr, J, arrivals[J]) {
		return nil
	}
	p.nIfConv++
	return J
}

// execInitInstr executes one instruction of a package initializer leniently: calls to other
// packages' initializers are skipped (their globals are initialised lazily on first use)
// and an instruction the encoder cannot execute leaves the zero value behind.
func (p *Path) execInitInstr(fr *Frame, ins ssa.Instruction) {
	if c, ok := ins.(*ssa.Call); ok {
		if f, ok := c.Call.Value.(*ssa.Function); ok && f.Name() == "init" && f.Pkg != fr.fn.Pkg && f.Signature.Recv() == nil {
			fr.locals[c] = nil
			return
		}
	}
	saved := p.cur
	depth := p.depth
	defer func() {
		if r := recover(); r != nil {
			skip := false
			switch x := r.(type) {
			case pathAbort:
				skip = x.kind == abUnsupported
				if skip {
					fmt.Fprintf(p.eng.logw, "note: init of %s: skipped %s: %s\n", fr.fn.Pkg.Pkg.Path(), ins, x.msg)
				}
			case *GoPanic:
				skip = true
			}
			if !skip {
				panic(r)
			}
			p.cur = saved
			p.depth = depth
			if v, ok := ins.(ssa.Value); ok {
				func() {
					defer func() { recover() }()
					fr.locals[v] = p.zero(v.Type())
				}()
			}
		}
	}()
	p.execInstr(fr, ins)
}


// initStored lists the package-level variables that the package's init function (or an
// init#N function it calls) stores to directly.
func (e *Engine) initStored(pkg *ssa.Package) []*ssa.Global {
	e.initMu.Lock()
	defer e.initMu.Unlock()
	if r, ok := e.initStoredCache[pkg]; ok {
		return r
	}
	set := map[*ssa.Global]bool{}
	var root func(v ssa.Value) *ssa.Global
	root = func(v ssa.Value) *ssa.Global {
		switch x := v.(type) {
		case *ssa.Global:
			return x
		case *ssa.FieldAddr:
			return root(x.X)
		case *ssa.IndexAddr:
			return root(x.X)
		}
		return nil
	}
	scan := func(fn *ssa.Function) {
		for _, b := range fn.Blocks {
			for _, in := range b.Instrs {
				if st, ok := in.(*ssa.Store); ok {
					if g := root(st.Addr); g != nil && g.Pkg == pkg {
						set[g] = true
					}
				}
			}
		}
	}
	for name, m := range pkg.Members {
		if fn, ok := m.(*ssa.Function); ok && (name == "init" || strings.HasPrefix(name, "init#")) {
			scan(fn)
		}
	}
	var out []*ssa.Global
	for g := range set {
		out = append(out, g)
	}
	if e.initStoredCache == nil {
		e.initStoredCache = map[*ssa.Package][]*ssa.Global{}
	}
	e.initStoredCache[pkg] = out
	return out
}
