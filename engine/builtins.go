package main

import (
	"fmt"
	"go/types"

	"golang.org/x/tools/go/ssa"
)

func (p *Path) callBuiltin(fr *Frame, b *ssa.Builtin, args []Value, site ssa.CallInstruction) Value {
	tt := p.tt
	switch b.Name() {
	case "len":
		switch x := args[0].(type) {
		case *Str:
			return tt.Const(64, uint64(len(x.B)))
		case *SymLenStr:
			return x.Len
		case *Slice:
			if x.Obj == nil {
				return tt.Const(64, 0)
			}
			return x.Len
		case *MapRef:
			if x.M == nil {
				return tt.Const(64, 0)
			}
			return tt.Const(64, uint64(len(x.M.Keys)))
		case *Arr:
			return tt.Const(64, uint64(len(x.E)))
		case *Ptr:
			// pointer to array
			at := site.Common().Args[0].Type().Underlying().(*types.Pointer).Elem().Underlying().(*types.Array)
			return tt.Const(64, uint64(at.Len()))
		case *Opaque:
			return tt.Const(64, 0)
		}
	case "cap":
		switch x := args[0].(type) {
		case *Slice:
			if x.Obj == nil {
				return tt.Const(64, 0)
			}
			return x.Cap
		case *Arr:
			return tt.Const(64, uint64(len(x.E)))
		case *Ptr:
			at := site.Common().Args[0].Type().Underlying().(*types.Pointer).Elem().Underlying().(*types.Array)
			return tt.Const(64, uint64(at.Len()))
		}
	case "append":
		return p.builtinAppend(args, site.Common().Args[0].Type())
	case "copy":
		dst := args[0].(*Slice)
		var srcBytes []Value
		et := site.Common().Args[0].Type().Underlying().(*types.Slice).Elem()
		switch s := args[1].(type) {
		case *Str:
			for _, c := range s.B {
				srcBytes = append(srcBytes, c)
			}
		case *Slice:
			if s.Obj != nil {
				n := p.mustInt(s.Len, "copy src len")
				dn := 0
				if dst.Obj != nil {
					dn = p.mustInt(dst.Len, "copy dst len")
				}
				if dn < n {
					n = dn
				}
				// whole-buffer fast path for large byte copies
				if n > 256 && isByteType(et) && s.Obj.Buf != nil && dst.Obj != nil && dst.Obj.Buf != nil {
					if so, ok1 := p.cint(s.Off); ok1 && so == 0 {
						if do, ok2 := p.cint(dst.Off); ok2 && do == 0 && dst.Obj.Buf.N == n && s.Obj.Buf.N >= n && dst.Obj != s.Obj {
							p.bufCheck(s.Obj)
							if s.Obj.Buf.N == n {
								if s.Obj.Buf.Cells != nil {
									dst.Obj.Buf.Cells = append([]*Term{}, s.Obj.Buf.Cells...)
									dst.Obj.Buf.Arr = nil
								} else {
									dst.Obj.Buf.Arr = s.Obj.Buf.Arr
									dst.Obj.Buf.Cells = nil
								}
								return tt.Const(64, uint64(n))
							}
						}
					}
				}
				for i := 0; i < n; i++ {
					srcBytes = append(srcBytes, p.load(p.sliceElemPtr(s, tt.Const(64, uint64(i)), et), et))
				}
			}
		}
		if dst.Obj == nil {
			return tt.Const(64, 0)
		}
		n := len(srcBytes)
		if _, isC := p.cint(dst.Len); isC || !p.branch(tt.Ule(tt.Const(64, uint64(n)), dst.Len)) {
			dn := p.mustInt(dst.Len, "copy dst len")
			if dn < n {
				n = dn
			}
		}
		for i := 0; i < n; i++ {
			p.store(p.sliceElemPtr(dst, tt.Const(64, uint64(i)), et), et, srcBytes[i])
		}
		return tt.Const(64, uint64(n))
	case "delete":
		m := args[0].(*MapRef)
		if m.M == nil {
			return nil
		}
		i := p.mapFind(m.M, args[1])
		if i >= 0 {
			m.M.Keys = append(append([]Value{}, m.M.Keys[:i]...), m.M.Keys[i+1:]...)
			m.M.Vals = append(append([]Value{}, m.M.Vals[:i]...), m.M.Vals[i+1:]...)
		}
		return nil
	case "clear":
		if m, ok := args[0].(*MapRef); ok {
			if m.M != nil {
				m.M.Keys, m.M.Vals = nil, nil
			}
			return nil
		}
	case "panic":
		panic(&GoPanic{V: args[0], Msg: p.panicMsg(args[0])})
	case "recover":
		rf := p.recoverFrame
		if rf != nil && rf.panic != nil {
			v := rf.panic.V
			rf.panic = nil
			return v
		}
		return &Iface{}
	case "print", "println":
		return nil
	case "min", "max":
		r := args[0].(*Term)
		_, signed := typeWidth(site.Common().Args[0].Type())
		for _, a := range args[1:] {
			y := a.(*Term)
			var c *Term
			if r.S.K == SFP {
				c = tt.FPLt(r, y)
			} else if signed {
				c = tt.Slt(r, y)
			} else {
				c = tt.Ult(r, y)
			}
			if b.Name() == "min" {
				r = tt.Ite(c, r, y)
			} else {
				r = tt.Ite(c, y, r)
			}
		}
		return r
	case "ssa:wrapnilchk":
		if ptr, ok := args[0].(*Ptr); ok && ptr.Obj == nil {
			p.goPanicRuntime("value method called using nil pointer")
		}
		return args[0]
	case "String": // unsafe.String(ptr, len)
		ptr := args[0].(*Ptr)
		n := p.mustInt(args[1].(*Term), "unsafe.String len")
		if n == 0 {
			return &Str{}
		}
		out := make([]*Term, n)
		for i := 0; i < n; i++ {
			out[i] = p.load(p.ptrAdd(ptr, i), types.Typ[types.Uint8]).(*Term)
		}
		return &Str{B: out}
	case "StringData":
		s := args[0].(*Str)
		sl := p.bytesToSlice(s.B, "unsafe.StringData")
		return &Ptr{Obj: sl.Obj, Off: tt.Const(64, 0)}
	case "SliceData":
		s := args[0].(*Slice)
		if s.Obj == nil {
			return &Ptr{}
		}
		if s.Obj.Buf != nil {
			return &Ptr{Obj: s.Obj, Off: s.Off}
		}
		return &Ptr{Obj: s.Obj, Path: appendPath(s.Path, PathEl{Idx: s.Off})}
	case "Slice": // unsafe.Slice(ptr, len)
		ptr := args[0].(*Ptr)
		n := args[1].(*Term)
		n = tt.ZExt(n, 64)
		if ptr.Obj == nil {
			return &Slice{}
		}
		if ptr.Obj.Buf != nil {
			return &Slice{Obj: ptr.Obj, Off: ptr.Off, Len: n, Cap: n}
		}
		last := len(ptr.Path) - 1
		if last >= 0 && ptr.Path[last].Idx != nil {
			return &Slice{Obj: ptr.Obj, Path: ptr.Path[:last], Off: ptr.Path[last].Idx, Len: n, Cap: n}
		}
	case "Add":
		ptr := args[0].(*Ptr)
		d := args[1].(*Term)
		if ptr.Obj != nil && ptr.Obj.Buf != nil {
			return &Ptr{Obj: ptr.Obj, Off: tt.Add(ptr.Off, tt.ZExt(d, 64))}
		}
	}
	panic(p.unsupported("builtin %s on %T", b.Name(), firstArg(args)))
}

func firstArg(a []Value) Value {
	if len(a) == 0 {
		return nil
	}
	return a[0]
}

func (p *Path) ptrAdd(ptr *Ptr, i int) *Ptr {
	tt := p.tt
	if ptr.Obj.Buf != nil {
		return &Ptr{Obj: ptr.Obj, Off: tt.Add(ptr.Off, tt.Const(64, uint64(i)))}
	}
	last := len(ptr.Path) - 1
	if last >= 0 && ptr.Path[last].Idx != nil {
		np := append(append([]PathEl{}, ptr.Path[:last]...), PathEl{Idx: tt.Add(ptr.Path[last].Idx, tt.Const(64, uint64(i)))})
		return &Ptr{Obj: ptr.Obj, Path: np}
	}
	if i == 0 {
		return ptr
	}
	panic(p.unsupported("pointer arithmetic on non-array pointer"))
}

func (p *Path) builtinAppend(args []Value, st types.Type) Value {
	tt := p.tt
	s := args[0].(*Slice)
	et := st.Underlying().(*types.Slice).Elem()
	var add []Value
	switch a := args[1].(type) {
	case *Str:
		for _, c := range a.B {
			add = append(add, c)
		}
	case *Slice:
		if a.Obj != nil {
			n := p.mustInt(a.Len, "append src len")
			for i := 0; i < n; i++ {
				add = append(add, p.load(p.sliceElemPtr(a, tt.Const(64, uint64(i)), et), et))
			}
		}
	default:
		panic(p.unsupported("append arg %T", args[1]))
	}
	if len(add) == 0 {
		return s
	}
	n, c := 0, 0
	if s.Obj != nil {
		n = p.mustInt(s.Len, "append len")
		c = p.mustInt(s.Cap, "append cap")
	}
	if n+len(add) <= c {
		ns := &Slice{Obj: s.Obj, Path: s.Path, Off: s.Off, Len: tt.Const(64, uint64(n+len(add))), Cap: s.Cap}
		for i, v := range add {
			p.store(p.sliceElemPtr(ns, tt.Const(64, uint64(n+i)), et), et, v)
		}
		return ns
	}
	nc := 2 * c
	if nc < n+len(add) {
		nc = n + len(add)
	}
	ns := p.makeSlice(et, n+len(add), nc)
	for i := 0; i < n; i++ {
		v := p.load(p.sliceElemPtr(s, tt.Const(64, uint64(i)), et), et)
		p.store(p.sliceElemPtr(ns, tt.Const(64, uint64(i)), et), et, v)
	}
	for i, v := range add {
		p.store(p.sliceElemPtr(ns, tt.Const(64, uint64(n+i)), et), et, v)
	}
	return ns
}

var _ = fmt.Sprintf
