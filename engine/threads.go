package main

// Coroutines for harness threads (vrt.coCreate / vrt.coSwitch). Each coroutine runs the
// interpreter on its own Go stack; exactly one of them (or the path's own goroutine,
// coroutine 0) is running at any time, the others are parked on their resume channel.

import (
	"golang.org/x/tools/go/ssa"
)

type coSignal struct {
	die   bool
	abort interface{} // delivered to coroutine 0 only: a panic value raised inside a thread
}

type coThread struct {
	id           int
	fn           Value
	resume       chan coSignal
	cur          *Frame
	depth        int
	recoverFrame *Frame
	started      bool
	exited       chan struct{}
}

type threadDie struct{}

func (p *Path) coInit() {
	if len(p.threads) == 0 {
		p.threads = append(p.threads, &coThread{id: 0, resume: make(chan coSignal), started: true})
	}
}

func (p *Path) coCreate(fn Value) int {
	p.coInit()
	t := &coThread{id: len(p.threads), fn: fn, resume: make(chan coSignal), exited: make(chan struct{})}
	p.threads = append(p.threads, t)
	return t.id
}

func (p *Path) coSwitch(target int) {
	p.coInit()
	if target < 0 || target >= len(p.threads) {
		panic(p.unsupported("coSwitch to unknown coroutine %d", target))
	}
	self := p.threads[p.curThread]
	self.cur, self.depth, self.recoverFrame = p.cur, p.depth, p.recoverFrame
	t := p.threads[target]
	p.curThread = target
	p.cur, p.depth, p.recoverFrame = t.cur, t.depth, t.recoverFrame
	if !t.started {
		t.started = true
		go p.threadMain(t)
	} else {
		t.resume <- coSignal{}
	}
	sig := <-self.resume
	if sig.die {
		panic(threadDie{})
	}
	// whoever resumed us has already installed our saved interpreter state
	if sig.abort != nil {
		panic(sig.abort)
	}
}

func (p *Path) threadMain(t *coThread) {
	defer close(t.exited)
	defer func() {
		r := recover()
		if r == nil {
			// the thread function returned without switching away: treat as finished,
			// control goes back to coroutine 0
			r = pathAbort{abUnsupported, "harness thread returned without yielding to the scheduler"}
		}
		if _, ok := r.(threadDie); ok {
			return
		}
		// an abort or Go panic inside the thread ends the whole path: hand it to coroutine 0
		main := p.threads[0]
		p.curThread = 0
		p.cur, p.depth, p.recoverFrame = main.cur, main.depth, main.recoverFrame
		main.resume <- coSignal{abort: r}
	}()
	p.cur, p.depth, p.recoverFrame = nil, 0, nil
	p.callValue(nil, t.fn, nil, nil)
}

// coKillAll ends every parked coroutine (end of the path). Must be called from coroutine
// 0's goroutine while all others are parked.
func (p *Path) coKillAll() {
	for _, t := range p.threads[min(1, len(p.threads)):] {
		if !t.started {
			continue
		}
		select {
		case <-t.exited:
			continue
		default:
		}
		select {
		case t.resume <- coSignal{die: true}:
			<-t.exited
		case <-t.exited:
		}
	}
	p.threads = nil
}

func (e *Engine) initThreadIntrinsics() {
	e.intr["vrt.coCreate"] = func(p *Path, fn *ssa.Function, args []Value) Value {
		return p.tt.Const(64, uint64(p.coCreate(args[0])))
	}
	e.intr["vrt.coSwitch"] = func(p *Path, fn *ssa.Function, args []Value) Value {
		id := p.mustInt(args[0].(*Term), "coSwitch id")
		p.coSwitch(id)
		return nil
	}
}
