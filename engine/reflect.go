package main

// A small model of package reflect, enough for chartconfig.Parse: types are
// go/types values, reflect.Value is a typed location (or a typed temporary).

import (
	"go/types"

	"golang.org/x/tools/go/ssa"
)

type rval struct {
	ptr *Ptr       // addressable location (nil for temporaries)
	val Value      // value of a temporary
	typ types.Type // static type of the value
}

func (p *Path) rtypeIface(t types.Type) *Iface {
	vrt := p.eng.pkgs["golang.org/x/telemetry/internal/vrt"]
	named := vrt.Type("RType").Type()
	return &Iface{T: types.NewPointer(named), V: &Opaque{Kind: "rtype", Data: t}}
}

func rtypeOf(v Value) types.Type {
	switch x := v.(type) {
	case *Opaque:
		if t, ok := x.Data.(types.Type); ok {
			return t
		}
	case *Iface:
		return rtypeOf(x.V)
	}
	return nil
}

func (p *Path) rget(r *rval) Value {
	if r.ptr != nil {
		return p.load(r.ptr, r.typ)
	}
	return r.val
}

func reflectKind(t types.Type) uint64 {
	switch u := t.Underlying().(type) {
	case *types.Basic:
		switch {
		case u.Info()&types.IsBoolean != 0:
			return 1
		case u.Kind() == types.Int:
			return 2
		case u.Kind() == types.Int64:
			return 6
		case u.Kind() == types.Float64:
			return 14
		case u.Info()&types.IsString != 0:
			return 24
		}
	case *types.Pointer:
		return 22
	case *types.Slice:
		return 23
	case *types.Struct:
		return 25
	case *types.Map:
		return 21
	case *types.Interface:
		return 20
	}
	return 0
}

func (e *Engine) initReflectIntrinsics() {
	in := e.intr
	const rt = "(*golang.org/x/telemetry/internal/vrt.RType)."
	rv := func(v Value) *rval { return v.(*Opaque).Data.(*rval) }
	mk := func(r *rval) Value { return &Opaque{Kind: "rvalue", Data: r} }
	in["reflect.TypeOf"] = func(p *Path, fn *ssa.Function, args []Value) Value {
		i := args[0].(*Iface)
		if i.T == nil {
			return &Iface{}
		}
		return p.rtypeIface(i.T)
	}
	in[rt+"NumField"] = func(p *Path, fn *ssa.Function, args []Value) Value {
		st := rtypeOf(args[0]).Underlying().(*types.Struct)
		return p.tt.Const(64, uint64(st.NumFields()))
	}
	in[rt+"Field"] = func(p *Path, fn *ssa.Function, args []Value) Value {
		st := rtypeOf(args[0]).Underlying().(*types.Struct)
		i := p.mustInt(args[1].(*Term), "reflect Field index")
		if i < 0 || i >= st.NumFields() {
			p.goPanicRuntime("reflect: Field index out of bounds")
		}
		sft := fn.Signature.Results().At(0).Type()
		s := p.zero(sft).(*Struct)
		sst := sft.Underlying().(*types.Struct)
		for k := 0; k < sst.NumFields(); k++ {
			switch sst.Field(k).Name() {
			case "Name":
				s.F[k] = p.concStr(st.Field(i).Name())
			case "Type":
				s.F[k] = p.rtypeIface(st.Field(i).Type())
			}
		}
		return s
	}
	in[rt+"Kind"] = func(p *Path, fn *ssa.Function, args []Value) Value {
		return p.tt.Const(64, reflectKind(rtypeOf(args[0])))
	}
	in[rt+"Elem"] = func(p *Path, fn *ssa.Function, args []Value) Value {
		switch u := rtypeOf(args[0]).Underlying().(type) {
		case *types.Pointer:
			return p.rtypeIface(u.Elem())
		case *types.Slice:
			return p.rtypeIface(u.Elem())
		}
		panic(p.unsupported("reflect Type.Elem of %v", rtypeOf(args[0])))
	}
	in["reflect.ValueOf"] = func(p *Path, fn *ssa.Function, args []Value) Value {
		i := args[0].(*Iface)
		return mk(&rval{val: i.V, typ: i.T})
	}
	in["(reflect.Value).Elem"] = func(p *Path, fn *ssa.Function, args []Value) Value {
		r := rv(args[0])
		pt, ok := r.typ.Underlying().(*types.Pointer)
		if !ok {
			panic(p.unsupported("reflect Value.Elem of %v", r.typ))
		}
		ptr := p.rget(r).(*Ptr)
		if ptr.Obj == nil {
			p.goPanicRuntime("reflect: Elem of nil pointer")
		}
		return mk(&rval{ptr: ptr, typ: pt.Elem()})
	}
	in["(reflect.Value).FieldByName"] = func(p *Path, fn *ssa.Function, args []Value) Value {
		r := rv(args[0])
		name, ok := strConcrete(args[1].(*Str))
		if !ok || r.ptr == nil {
			panic(p.unsupported("reflect FieldByName with symbolic name or unaddressable struct"))
		}
		st := r.typ.Underlying().(*types.Struct)
		for k := 0; k < st.NumFields(); k++ {
			if st.Field(k).Name() == name {
				return mk(&rval{ptr: &Ptr{Obj: r.ptr.Obj, Path: appendPath(r.ptr.Path, PathEl{Field: k})}, typ: st.Field(k).Type()})
			}
		}
		panic(p.unsupported("reflect FieldByName: no field %s", name))
	}
	set := func(p *Path, fn *ssa.Function, args []Value) Value {
		r := rv(args[0])
		if r.ptr == nil {
			p.goPanicRuntime("reflect: Set on unaddressable value")
		}
		v := args[1]
		if t, ok := v.(*Term); ok && t.S.K == SBV {
			if w, _ := typeWidth(r.typ); w != 0 && w != t.S.W {
				v = p.tt.Extract(t, w-1, 0)
			}
		}
		p.store(r.ptr, r.typ, v)
		return nil
	}
	in["(reflect.Value).SetString"] = set
	in["(reflect.Value).SetInt"] = set
	in["(reflect.Value).SetFloat"] = set
	in["(reflect.Value).Set"] = func(p *Path, fn *ssa.Function, args []Value) Value {
		r := rv(args[0])
		if r.ptr == nil {
			p.goPanicRuntime("reflect: Set on unaddressable value")
		}
		p.store(r.ptr, r.typ, p.rget(rv(args[1])))
		return nil
	}
	in["(reflect.Value).Type"] = func(p *Path, fn *ssa.Function, args []Value) Value {
		return p.rtypeIface(rv(args[0]).typ)
	}
	in["(reflect.Value).Kind"] = func(p *Path, fn *ssa.Function, args []Value) Value {
		return p.tt.Const(64, reflectKind(rv(args[0]).typ))
	}
	in["reflect.New"] = func(p *Path, fn *ssa.Function, args []Value) Value {
		t := rtypeOf(args[0])
		o := p.newObj(t, p.zero(t), "reflect.New")
		return mk(&rval{val: &Ptr{Obj: o}, typ: types.NewPointer(t)})
	}
	in["reflect.Append"] = func(p *Path, fn *ssa.Function, args []Value) Value {
		r := rv(args[0])
		elems := p.variadicRaw(args[1])
		s := p.rget(r)
		st := r.typ
		et := st.Underlying().(*types.Slice).Elem()
		for _, ev := range elems {
			one := p.makeSlice(et, 1, 1)
			p.store(p.sliceElemPtr(one, p.tt.Const(64, 0), et), et, p.rget(rv(ev)))
			s = p.builtinAppend([]Value{s, one}, st)
		}
		return mk(&rval{val: s, typ: st})
	}
	in["(reflect.Value).Len"] = func(p *Path, fn *ssa.Function, args []Value) Value {
		s := p.rget(rv(args[0])).(*Slice)
		if s.Obj == nil {
			return p.tt.Const(64, 0)
		}
		return s.Len
	}
	in["(reflect.Value).Index"] = func(p *Path, fn *ssa.Function, args []Value) Value {
		r := rv(args[0])
		s := p.rget(r).(*Slice)
		et := r.typ.Underlying().(*types.Slice).Elem()
		idx := args[1].(*Term)
		if s.Obj == nil {
			p.goPanicRuntime("reflect: slice index out of range")
		}
		p.boundsCheck(idx, s.Len, "reflect Index")
		return mk(&rval{ptr: p.sliceElemPtr(s, idx, et), typ: et})
	}
}

// variadicRaw returns the elements of a variadic slice of non-interface values.
func (p *Path) variadicRaw(v Value) []Value {
	s := v.(*Slice)
	if s.Obj == nil {
		return nil
	}
	n := p.mustInt(s.Len, "variadic len")
	out := make([]Value, n)
	for i := 0; i < n; i++ {
		ptr := p.sliceElemPtr(s, p.tt.Const(64, uint64(i)), nil)
		out[i] = p.slotAt(ptr.Obj, ptr.Path).get()
	}
	return out
}
