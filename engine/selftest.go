package main

// Translator self-test: `verif selftest [--entry F] [--models k]`.
//
// The entries of harness/selftest run code over symbolic inputs and pass results to
// vrt.Observe. For every completed path the solver is asked for up to k models of the
// path condition that differ in the observed values; the observations are evaluated in
// each model (get-value over the engine's terms) and the same input values are then
// executed by the real compiler's code (the replay binary, which uses the real standard
// library: engine redirects and intrinsics do not exist there). Any difference between
// what the encoding says is observed and what the native run observes is a translator
// or model bug. This validates: the SSA interpreter's operator/conversion/aggregate
// semantics, the SMT encoding and simplifier, the models of library functions
// (strings/bytes/sort/fmt/strconv/time/html/unicode redirects and intrinsics), and the
// model-extraction/replay plumbing that every counterexample depends on.

import (
	"bytes"
	"encoding/json"
	"flag"
	"fmt"
	"os"
	"os/exec"
	"path/filepath"
	"sort"
	"strconv"
	"strings"
	"time"
)

func cmdSelftest(args []string) int {
	fs := flag.NewFlagSet("selftest", flag.ExitOnError)
	workers := fs.Int("workers", 14, "solver workers")
	only := fs.String("entry", "", "run only these entries (comma separated)")
	models := fs.Int("models", 3, "models per path")
	qto := fs.Int("qtimeout", 15000, "per-query timeout ms")
	verbose := fs.Bool("v", false, "verbose")
	budget := fs.Int("budget", 40, "seconds of all workers per entry")
	fs.Parse(args)
	solver := "z3"
	if p, err := exec.LookPath("z3-new"); err == nil {
		solver = p
	}
	vd := verifDir()
	t0 := time.Now()
	spec, err := loadSpec(vd, "selftest")
	if err != nil {
		fmt.Fprintf(os.Stderr, "ERROR: %v\n", err)
		return 2
	}
	type partT struct {
		file string
		spec *Spec
		eng  *Engine
	}
	parts := []*partT{{"", spec, nil}}
	for _, pf := range spec.Parts {
		ps, err := loadSpecFile(vd, "selftest", pf)
		if err != nil {
			fmt.Fprintf(os.Stderr, "ERROR: %v\n", err)
			return 2
		}
		ps.Property = spec.Property
		parts = append(parts, &partT{pf, ps, nil})
	}
	type rec struct {
		replayRec
		Expect []uint64 `json:"expect"`
		part   *partT
	}
	var recs []rec
	var summary []map[string]interface{}
	nq, problems := 0, 0
	var solverT time.Duration
	for _, part := range parts {
		eng := &Engine{spec: part.spec, verifDir: vd, logw: os.Stderr, tier: "quick", selftest: *models}
		if !*verbose {
			eng.logw = &bytes.Buffer{}
		}
		part.eng = eng
		eng.initIntrinsics()
		eng.initIntrinsics2()
		eng.initThreadIntrinsics()
		eng.initReflectIntrinsics()
		if err := eng.load(); err != nil {
			fmt.Fprintf(os.Stderr, "ERROR: load: %v\n", err)
			return 2
		}
		var entries []EntryCfg
		for _, e := range part.spec.Entries {
			if *only != "" {
				found := false
				for _, o := range strings.Split(*only, ",") {
					found = found || o == e.Func
				}
				if !found {
					continue
				}
			}
			if e.Unwind == 0 {
				e.Unwind = 64
			}
			if e.MaxSteps == 0 {
				e.MaxSteps = 4000000
			}
			if e.MaxValues == 0 {
				e.MaxValues = 64
			}
			if e.Pkg == "" {
				e.Pkg = part.spec.Packages[0]
			}
			if e.TimeoutS == 0 {
				e.TimeoutS = *budget // worker-time budget per entry; what is cut off is reported
			}
			entries = append(entries, e)
		}
		if len(entries) == 0 {
			continue
		}
		results, ws, err := eng.explore(entries, *workers, solver, *qto)
		if err != nil {
			fmt.Fprintf(os.Stderr, "ERROR: %v\n", err)
			return 2
		}
		for _, w := range ws {
			nq += w.solver.Stats.Queries
			solverT += w.solver.Stats.Time
		}
		for _, er := range results {
			nobs := 0
			for _, v := range er.Violations {
				if v.Kind != "observe" {
					// an assertion of the self-test harness itself failed in the engine:
					// reported below through the native comparison (asserts are not used
					// by the self-test entries), so count it as a problem
					fmt.Printf("SELFTEST-PROBLEM entry=%s engine reports %s: %s\n", v.Entry, v.Kind, v.Label)
					problems++
					continue
				}
				nobs++
				recs = append(recs, rec{replayRec{Entry: v.Entry, Label: v.Label, Kind: v.Kind, Values: v.Values, Params: er.Cfg.Params, Pkg: er.Cfg.Pkg, Prop: "selftest", Part: part.file}, v.Expect, part})
			}
			nu := 0
			for _, c := range er.Unsupported {
				nu += c
			}
			if er.Unknown > 0 {
				fmt.Printf("selftest: %s: %d solver answers unknown within the query timeout (those vectors are skipped)\n", er.Cfg.Func, er.Unknown)
			}
			if nu > 0 || er.Budget > 0 {
				fmt.Printf("SELFTEST-PROBLEM entry=%s unsupported=%v budget=%d unknown=%d\n", er.Cfg.Func, er.Unsupported, er.Budget, er.Unknown)
				problems++
			}
			if nobs == 0 {
				fmt.Printf("SELFTEST-PROBLEM entry=%s produced no observation vector (paths=%d done=%d)\n", er.Cfg.Func, er.Paths, er.Done)
				problems++
			}
			summary = append(summary, map[string]interface{}{"entry": er.Cfg.Func, "paths": er.Paths, "completed": er.Done, "vectors": nobs, "wall_s": er.Wall.Seconds(), "truncated": er.Truncated})
			if er.Truncated {
				fmt.Printf("selftest: %s truncated by its time budget after %d paths\n", er.Cfg.Func, er.Paths)
			}
		}
	}
	if len(recs) == 0 {
		fmt.Fprintln(os.Stderr, "ERROR: no observation vectors")
		return 2
	}
	// native side: one binary per (part, package); all records of it in one process
	tmp, err := os.MkdirTemp("", "verif-selftest-")
	if err != nil {
		fmt.Fprintf(os.Stderr, "ERROR: %v\n", err)
		return 2
	}
	defer os.RemoveAll(tmp)
	type gk struct {
		part *partT
		pkg  string
	}
	groups := map[gk][]int{}
	for i, r := range recs {
		k := gk{r.part, r.Pkg}
		groups[k] = append(groups[k], i)
	}
	agree, mismatch := 0, 0
	gi := 0
	var keys []gk
	for k := range groups {
		keys = append(keys, k)
	}
	sort.Slice(keys, func(i, j int) bool { return keys[i].pkg+keys[i].part.file < keys[j].pkg+keys[j].part.file })
	for _, k := range keys {
		idxs := groups[k]
		gi++
		gt := filepath.Join(tmp, fmt.Sprintf("g%d", gi))
		os.MkdirAll(gt, 0755)
		bin, dir, err := k.part.eng.buildReplayBinary(gt, k.pkg)
		if err != nil {
			fmt.Fprintf(os.Stderr, "ERROR: build replay binary for %s: %v\n", k.pkg, err)
			return 2
		}
		var sub []rec
		for _, i := range idxs {
			sub = append(sub, recs[i])
		}
		rfile := filepath.Join(gt, "recs.json")
		writeJSON(rfile, sub)
		cmd := exec.Command("timeout", "-s", "KILL", "300", bin, "-test.run", "^TestVerifReplay$", "-test.v", "-test.timeout", "0")
		cmd.Dir = dir
		td, _ := os.MkdirTemp("", "verif-replay-home-")
		cmd.Env = append(os.Environ(), "VERIF_REPLAY="+rfile, "HOME="+td, "XDG_CONFIG_HOME="+td, "VERIF_TMP="+td)
		out, _ := cmd.CombinedOutput()
		os.RemoveAll(td)
		got := map[int][]uint64{}
		status := map[int]string{}
		for _, line := range strings.Split(string(out), "\n") {
			if !strings.HasPrefix(line, "VERIF-REPLAY index=") {
				continue
			}
			rest := line[len("VERIF-REPLAY index="):]
			sp := strings.IndexByte(rest, ' ')
			if sp < 0 {
				continue
			}
			idx, err := strconv.Atoi(rest[:sp])
			if err != nil {
				continue
			}
			rest = rest[sp+1:]
			switch {
			case strings.HasPrefix(rest, "observed="):
				var vs []uint64
				for _, h := range strings.Split(rest[len("observed="):], ",") {
					v, _ := strconv.ParseUint(h, 16, 64)
					vs = append(vs, v)
				}
				got[idx] = vs
			case strings.HasPrefix(rest, "begin"):
			default:
				status[idx] = rest
			}
		}
		for j, r := range sub {
			g := got[j]
			st := status[j]
			ok := len(g) == len(r.Expect) && (strings.HasPrefix(st, "end") || strings.HasPrefix(st, "panic"))
			if ok {
				for x := range g {
					if g[x] != r.Expect[x] {
						ok = false
					}
				}
			}
			if ok {
				agree++
				continue
			}
			mismatch++
			if mismatch <= 20 {
				fmt.Printf("SELFTEST-MISMATCH entry=%s %s inputs=%v\n  encoding says: %s\n  native run   : %s (%s)\n", r.Entry, r.Label, r.Values, hexList(r.Expect), hexList(g), st)
			}
		}
	}
	wall := time.Since(t0)
	res := map[string]interface{}{
		"what":             "translator self-test: observations evaluated in solver models of the engine's encoding vs the same inputs run by the compiled code with the real standard library",
		"entries":          summary,
		"vectors_compared": agree + mismatch,
		"agree":            agree,
		"mismatch":         mismatch,
		"problems":         problems,
		"models_per_path":  *models,
		"queries":          nq,
		"solver_s":         solverT.Seconds(),
		"wall_s":           wall.Seconds(),
	}
	if *only == "" {
		b, _ := json.MarshalIndent(res, "", " ")
		os.WriteFile(filepath.Join(vd, "selftest", "result.json"), append(b, '\n'), 0644)
	}
	fmt.Printf("selftest entries=%d vectors=%d agree=%d mismatch=%d problems=%d queries=%d wall=%.1fs\n", len(summary), agree+mismatch, agree, mismatch, problems, nq, wall.Seconds())
	if mismatch > 0 || problems > 0 {
		return 1
	}
	return 0
}

func hexList(v []uint64) string {
	var sb strings.Builder
	for i, x := range v {
		if i > 0 {
			sb.WriteByte(' ')
		}
		fmt.Fprintf(&sb, "%x", x)
	}
	return sb.String()
}
