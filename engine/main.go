package main

import (
	"bytes"
	"encoding/json"
	"flag"
	"fmt"
	"os"
	"os/exec"
	"path/filepath"
	"sort"
	"strconv"
	"strings"
	"time"
)

type KnownFinding struct {
	Property string `json:"property"`
	Entry    string `json:"entry"`
	Kind     string `json:"kind"`
	Label    string `json:"label_contains"`
	Where    string `json:"where_contains,omitempty"`
	What     string `json:"what"`
}

type KnownFile struct {
	Findings []KnownFinding `json:"findings"`
	Fixed    []string       `json:"fixed"`
}

func verifDir() string {
	if d := os.Getenv("VERIF_DIR"); d != "" {
		return d
	}
	exe, err := os.Executable()
	if err == nil {
		d := filepath.Dir(filepath.Dir(exe))
		if _, err := os.Stat(filepath.Join(d, "harness")); err == nil {
			return d
		}
	}
	return "/verif"
}

func main() {
	if len(os.Args) < 2 {
		fmt.Fprintln(os.Stderr, "usage: verif check <Cxx> [--tier quick|thorough] | verif replay <file>")
		os.Exit(2)
	}
	switch os.Args[1] {
	case "check":
		os.Exit(cmdCheck(os.Args[2:]))
	case "replay":
		os.Exit(cmdReplay(os.Args[2:]))
	case "selftest":
		os.Exit(cmdSelftest(os.Args[2:]))
	default:
		fmt.Fprintln(os.Stderr, "unknown command")
		os.Exit(2)
	}
}

func loadSpec(vd, prop string) (*Spec, error) { return loadSpecFile(vd, prop, "spec.json") }

func loadSpecFile(vd, prop, file string) (*Spec, error) {
	if file == "" {
		file = "spec.json"
	}
	data, err := os.ReadFile(filepath.Join(vd, "harness", prop, file))
	if err != nil {
		return nil, err
	}
	var s Spec
	dec := json.NewDecoder(bytes.NewReader(data))
	dec.DisallowUnknownFields()
	if err := dec.Decode(&s); err != nil {
		return nil, fmt.Errorf("spec.json: %v", err)
	}
	if s.ModuleDir == "" {
		s.ModuleDir = "/repo"
	}
	if r := repoDir(); r != "/repo" && strings.HasPrefix(s.ModuleDir, "/repo") {
		s.ModuleDir = r + strings.TrimPrefix(s.ModuleDir, "/repo")
	}
	return &s, nil
}

type replayRec struct {
	Entry  string         `json:"entry"`
	Label  string         `json:"label"`
	Kind   string         `json:"kind"`
	Where  string         `json:"where,omitempty"`
	Values []uint64       `json:"values"`
	Params map[string]int `json:"params,omitempty"`
	Pkg    string         `json:"pkg"`
	Prop   string         `json:"property"`
	Part   string         `json:"part,omitempty"` // spec file of the part this entry belongs to
}

func cmdCheck(args []string) int {
	fs := flag.NewFlagSet("check", flag.ExitOnError)
	tier := fs.String("tier", "", "quick|thorough")
	workers := fs.Int("workers", 0, "solver workers")
	only := fs.String("entry", "", "run only this entry (comma separated)")
	solver := fs.String("solver", "", "solver binary (default z3-new, else z3)")
	qto := fs.Int("qtimeout", 60000, "per-query timeout ms")
	noReplay := fs.Bool("no-replay", false, "skip native replay (debug)")
	noEvidence := fs.Bool("no-evidence", false, "do not write evidence/ or replay/ under the verif dir (trial runs on scratch worktrees)")
	verbose := fs.Bool("v", false, "verbose")
	var prop string
	if len(args) > 0 && !strings.HasPrefix(args[0], "-") {
		prop = args[0]
		args = args[1:]
	}
	fs.Parse(args)
	if prop == "" && fs.NArg() > 0 {
		prop = fs.Arg(0)
	}
	if *tier == "" {
		*tier = os.Getenv("VERIF_TIER")
	}
	if *tier == "" {
		*tier = "quick"
	}
	if *workers == 0 {
		*workers = 14
	}
	if *solver == "" {
		*solver = "z3"
		if p, err := exec.LookPath("z3-new"); err == nil {
			*solver = p
		}
	}
	seed := 0
	if s := os.Getenv("VERIF_SEED"); s != "" {
		seed, _ = strconv.Atoi(s)
	}
	vd := verifDir()
	t0 := time.Now()
	if out, err := exec.Command(*solver, "--version").Output(); err == nil {
		solverDesc = strings.TrimSpace(string(out)) + " (" + *solver + " -in, incremental: path-condition prefix in one push level, one push/pop per query, global-decls, no set-logic)"
	}
	spec, err := loadSpec(vd, prop)
	if err != nil {
		fmt.Fprintf(os.Stderr, "ERROR: %v\n", err)
		return 2
	}
	type partRun struct {
		file string
		spec *Spec
		eng  *Engine
	}
	parts := []*partRun{{file: "", spec: spec}}
	for _, pf := range spec.Parts {
		ps, err := loadSpecFile(vd, prop, pf)
		if err != nil {
			fmt.Fprintf(os.Stderr, "ERROR: %v\n", err)
			return 2
		}
		ps.Property = spec.Property
		parts = append(parts, &partRun{file: pf, spec: ps})
		// the main spec's evidence texts cover all parts
		for k, v := range ps.Bounds {
			if spec.Bounds == nil {
				spec.Bounds = map[string]string{}
			}
			spec.Bounds[k] = v
		}
		spec.Assumptions = append(spec.Assumptions, ps.Assumptions...)
		spec.Stubs = append(spec.Stubs, ps.Stubs...)
		spec.Outside = append(spec.Outside, ps.Outside...)
	}
	var results []*EntryResult
	var ws []*Worker
	var loadT time.Duration
	entryPart := map[string]*partRun{}
	for _, part := range parts {
		tl := time.Now()
		spec := part.spec
		eng := &Engine{spec: spec, verifDir: vd, logw: os.Stderr, tier: *tier, noIfConv: os.Getenv("VERIF_NO_IFCONV") != ""}
		part.eng = eng
		if !*verbose {
			eng.logw = &bytes.Buffer{}
		}
		eng.initIntrinsics()
		eng.initIntrinsics2()
		eng.initThreadIntrinsics()
		eng.initReflectIntrinsics()
		if err := eng.load(); err != nil {
			fmt.Fprintf(os.Stderr, "ERROR: load: %v\n", err)
			return 2
		}
		loadT += time.Since(tl)
		instrumentedSources = append(instrumentedSources, eng.instrumented...)
		var entries []EntryCfg
		for _, e := range spec.Entries {
			if e.Tier == "thorough" && *tier != "thorough" {
				continue
			}
			if e.Tier == "quickonly" && *tier != "quick" {
				continue
			}
			if *only != "" {
				found := false
				for _, o := range strings.Split(*only, ",") {
					if o == e.Func {
						found = true
					}
				}
				if !found {
					continue
				}
			}
			if e.Unwind == 0 {
				e.Unwind = 16
			}
			if e.MaxSteps == 0 {
				e.MaxSteps = 4000000
			}
			if e.MaxValues == 0 {
				e.MaxValues = 64
			}
			if e.Pkg == "" {
				e.Pkg = spec.Packages[0]
			}
			if e.TimeoutS == 0 && *tier == "thorough" {
				// thorough runs are capped per entry: exploration that is cut off is
				// reported as truncated in the evidence, never as covered
				e.TimeoutS = 300
			}
			if v := os.Getenv("VERIF_ENTRY_TIMEOUT"); v != "" {
				e.TimeoutS, _ = strconv.Atoi(v)
			}
			if *tier == "thorough" && e.ParamsT != nil {
				if e.Params == nil {
					e.Params = map[string]int{}
				}
				merged := map[string]int{}
				for k, v := range e.Params {
					merged[k] = v
				}
				for k, v := range e.ParamsT {
					merged[k] = v
				}
				e.Params = merged
			}
			entries = append(entries, e)
			entryPart[e.Func] = part
		}
		if len(entries) == 0 {
			continue
		}
		r, w, err := eng.explore(entries, *workers, *solver, *qto)
		if err != nil {
			fmt.Fprintf(os.Stderr, "ERROR: %v\n", err)
			return 2
		}
		results = append(results, r...)
		ws = append(ws, w...)
	}
	if len(results) == 0 {
		fmt.Fprintf(os.Stderr, "ERROR: no entries\n")
		return 2
	}
	exploreT := time.Since(t0) - loadT
	dumpForkLog()

	// aggregate
	var stats SolverStats
	for _, w := range ws {
		stats.Queries += w.solver.Stats.Queries
		stats.Sat += w.solver.Stats.Sat
		stats.Unsat += w.solver.Stats.Unsat
		stats.Unknown += w.solver.Stats.Unknown
		stats.Errors += w.solver.Stats.Errors
		stats.CrossChecked += w.solver.Stats.CrossChecked
		stats.CrossAgree += w.solver.Stats.CrossAgree
		stats.CrossDisagree += w.solver.Stats.CrossDisagree
		stats.CrossInconclusive += w.solver.Stats.CrossInconclusive
		stats.Time += w.solver.Stats.Time
	}

	// violations: dedupe by (entry, kind, label)
	type vkey struct{ e, k, l string }
	seen := map[vkey]bool{}
	var recs []replayRec
	for _, er := range results {
		for _, v := range er.Violations {
			k := vkey{v.Entry, v.Kind, v.Label}
			if seen[k] {
				continue
			}
			seen[k] = true
			recs = append(recs, replayRec{Entry: v.Entry, Label: v.Label, Kind: v.Kind, Where: v.Where, Values: v.Values, Params: er.Cfg.Params, Pkg: er.Cfg.Pkg, Prop: spec.Property, Part: entryPart[v.Entry].file})
		}
	}
	known := KnownFile{}
	if data, err := os.ReadFile(filepath.Join(vd, "known_findings.json")); err == nil {
		json.Unmarshal(data, &known)
	}
	replayDir := filepath.Join(vd, "replay", spec.Property)
	if *noEvidence {
		replayDir, _ = os.MkdirTemp("", "verif-trial-replay-")
		defer os.RemoveAll(replayDir)
	}
	os.RemoveAll(replayDir)
	nviol, nknown, ninconcl := 0, 0, 0
	var confirmed []string
	var inconclusive []string
	if len(recs) > 0 {
		os.MkdirAll(replayDir, 0755)
		rfile := filepath.Join(replayDir, "cex.json")
		writeJSON(rfile, recs)
		var outcomes []string
		if *noReplay {
			outcomes = make([]string, len(recs))
			for i := range outcomes {
				outcomes[i] = "skipped"
			}
		} else {
			outcomes = make([]string, len(recs))
			for _, part := range parts {
				var sub []replayRec
				var idx []int
				for i, r := range recs {
					if r.Part == part.file {
						sub = append(sub, r)
						idx = append(idx, i)
					}
				}
				if len(sub) == 0 {
					continue
				}
				pfile := filepath.Join(replayDir, "cex_part_"+strings.TrimSuffix(part.file, ".json")+".json")
				writeJSON(pfile, sub)
				for k, oc := range part.eng.nativeReplay(pfile, sub) {
					outcomes[idx[k]] = oc
				}
			}
		}
		for i, r := range recs {
			oc := outcomes[i]
			ok := replayConfirms(r, oc)
			desc := fmt.Sprintf("entry=%s kind=%s label=%q native=%s", r.Entry, r.Kind, r.Label, oc)
			if !ok {
				ninconcl++
				inconclusive = append(inconclusive, desc)
				fmt.Printf("INCONCLUSIVE property=%s %s (solver model did not reproduce natively; not reported)\n", spec.Property, desc)
				continue
			}
			single := filepath.Join(replayDir, fmt.Sprintf("cex_%d.json", i))
			writeJSON(single, []replayRec{r})
			if kf := matchKnown(known, spec.Property, r); kf != nil {
				nknown++
				fmt.Printf("KNOWN-FINDING: property=%s %s [%s]\n", spec.Property, kf.What, desc)
				continue
			}
			nviol++
			confirmed = append(confirmed, desc)
			fmt.Printf("VIOLATION property=%s replay=%s %s\n", spec.Property, single, desc)
		}
	}

	// evidence
	ev := buildEvidence(spec, *tier, seed, results, ws, stats, loadT, exploreT, time.Since(t0), nviol, nknown, ninconcl, confirmed, inconclusive)
	if *noEvidence {
		// trial run: nothing is written
	} else if err := writeJSON(filepath.Join(vd, "evidence", spec.Property+".json"), ev); err != nil {
		fmt.Fprintf(os.Stderr, "ERROR: writing evidence: %v\n", err)
		return 2
	}
	// summary
	incomplete := false
	for _, er := range results {
		nu := 0
		for _, c := range er.Unsupported {
			nu += c
		}
		nw := 0
		for _, c := range er.Unwound {
			nw += c
		}
		fmt.Printf("%s %-28s paths=%d done=%d infeasible=%d stopped=%d unsupported=%d unwound=%d budget=%d asserts=%d discharged=%d trivial=%d unknown=%d violations=%d wall=%.1fs%s\n",
			spec.Property, er.Cfg.Func, er.Paths, er.Done, er.Infeasible, er.Stopped, nu, nw, er.Budget, er.Asserts, er.Discharged, er.Trivial, er.Unknown, len(er.Violations), er.Wall.Seconds(), map[bool]string{true: " TRUNCATED", false: ""}[er.Truncated])
		if nu > 0 || er.Budget > 0 || er.Truncated || er.Unknown > 0 || (nw > 0 && !er.Cfg.Total) {
			incomplete = true
		}
		for m, c := range er.Unsupported {
			fmt.Printf("   unsupported x%d: %s\n", c, m)
		}
		for m, c := range er.Unwound {
			fmt.Printf("   unwound x%d: %s\n", c, m)
		}
		if er.Done == 0 && er.Stopped == 0 {
			fmt.Printf("   WARNING: vacuous entry (no completed path)\n")
			incomplete = true
		}
	}
	fmt.Printf("%s tier=%s queries=%d sat=%d unsat=%d unknown=%d solver=%.1fs load=%.1fs wall=%.1fs violations=%d known=%d inconclusive=%d%s\n",
		spec.Property, *tier, stats.Queries, stats.Sat, stats.Unsat, stats.Unknown, stats.Time.Seconds(), loadT.Seconds(), time.Since(t0).Seconds(), nviol, nknown, ninconcl,
		map[bool]string{true: " INCOMPLETE(see evidence)", false: ""}[incomplete])
	if nviol > 0 {
		return 1
	}
	return 0
}

func matchKnown(k KnownFile, prop string, r replayRec) *KnownFinding {
	for i := range k.Findings {
		f := &k.Findings[i]
		if f.Property != prop || (f.Entry != "" && f.Entry != r.Entry) || (f.Kind != "" && f.Kind != r.Kind) {
			continue
		}
		if f.Label != "" && !strings.Contains(r.Label, f.Label) {
			continue
		}
		if f.Where != "" && !strings.Contains(r.Where, f.Where) {
			continue
		}
		return f
	}
	return nil
}

// replayConfirms decides whether the native outcome reproduces the violation.
func replayConfirms(r replayRec, oc string) bool {
	switch r.Kind {
	case "assert":
		return strings.Contains(oc, "violated:"+r.Label+";")
	case "panic":
		return strings.HasPrefix(oc, "panic") || strings.HasPrefix(oc, "crash")
	case "fault":
		return strings.HasPrefix(oc, "panic") || strings.HasPrefix(oc, "crash") || strings.HasPrefix(oc, "timeout")
	case "unwind":
		return strings.HasPrefix(oc, "timeout") || strings.HasPrefix(oc, "panic") || strings.HasPrefix(oc, "crash")
	}
	return false
}

// nativeReplay compiles the harness natively (go test -c with overlay) and runs each record.
func (e *Engine) nativeReplay(rfile string, recs []replayRec) []string {
	out := make([]string, len(recs))
	tmp, err := os.MkdirTemp("", "verif-replay-")
	if err != nil {
		for i := range out {
			out[i] = "error:" + err.Error()
		}
		return out
	}
	defer os.RemoveAll(tmp)
	// group by package
	byPkg := map[string][]int{}
	for i, r := range recs {
		byPkg[r.Pkg] = append(byPkg[r.Pkg], i)
	}
	for pkg, idxs := range byPkg {
		bin, dir, err := e.buildReplayBinary(tmp, pkg)
		if err != nil {
			for _, i := range idxs {
				out[i] = "error:build: " + err.Error()
			}
			continue
		}
		for _, i := range idxs {
			extra := ""
			if recs[i].Kind == "fault" && strings.Contains(recs[i].Label, "unmapped memory") {
				extra = "VERIF_REAL_UNMAP=1" // mappings become real memory regions that are really unmapped
			}
			out[i] = runReplay(bin, dir, rfile, i, 20*time.Second, extra)
		}
	}
	return out
}

func (e *Engine) buildReplayBinary(tmp, pkg string) (string, string, error) {
	sp := e.pkgs[pkg]
	if sp == nil {
		return "", "", fmt.Errorf("package %s not loaded", pkg)
	}
	// package dir: from module dir + relative import path
	var pkgDir string
	switch {
	case strings.HasPrefix(pkg, "golang.org/x/telemetry/godev"):
		pkgDir = filepath.Join(repoDir(), "godev", strings.TrimPrefix(pkg, "golang.org/x/telemetry/godev"))
	default:
		pkgDir = filepath.Join(repoDir(), strings.TrimPrefix(pkg, "golang.org/x/telemetry"))
	}
	// entries of this package
	var names []string
	for _, en := range e.spec.Entries {
		ep := en.Pkg
		if ep == "" {
			ep = e.spec.Packages[0]
		}
		if ep == pkg {
			names = append(names, en.Func)
		}
	}
	sort.Strings(names)
	var tb strings.Builder
	fmt.Fprintf(&tb, "package %s\n\nimport (\n\t\"testing\"\n\t\"golang.org/x/telemetry/internal/vrt\"\n)\n\nfunc TestVerifReplay(t *testing.T) {\n\tvrt.ReplayMain(map[string]func(){\n", sp.Pkg.Name())
	seen := map[string]bool{}
	for _, n := range names {
		if seen[n] {
			continue
		}
		seen[n] = true
		fmt.Fprintf(&tb, "\t\t%q: %s,\n", n, n)
	}
	tb.WriteString("\t})\n}\n")
	repl := map[string]string{}
	n := 0
	for path, data := range e.overlay {
		n++
		f := filepath.Join(tmp, fmt.Sprintf("ov%d_%s", n, filepath.Base(path)))
		if err := os.WriteFile(f, data, 0644); err != nil {
			return "", "", err
		}
		repl[path] = f
	}
	// the package's own test files are not part of the replay binary (they may not even
	// compile against the substituted imports): replace each by its package clause
	if ents, err := os.ReadDir(pkgDir); err == nil {
		for _, ent := range ents {
			nm := ent.Name()
			if !strings.HasSuffix(nm, "_test.go") {
				continue
			}
			src, err := os.ReadFile(filepath.Join(pkgDir, nm))
			if err != nil {
				continue
			}
			pkgName := sp.Pkg.Name()
			for _, line := range strings.Split(string(src), "\n") {
				if strings.HasPrefix(line, "package ") {
					f := strings.Fields(line)
					if len(f) >= 2 {
						pkgName = f[1]
					}
					break
				}
			}
			n++
			sf := filepath.Join(tmp, fmt.Sprintf("stub%d_%s", n, nm))
			os.WriteFile(sf, []byte("package "+pkgName+"\n"), 0644)
			repl[filepath.Join(pkgDir, nm)] = sf
		}
	}
	tf := filepath.Join(tmp, "zz_verif_replay_test.go")
	os.WriteFile(tf, []byte(tb.String()), 0644)
	repl[filepath.Join(pkgDir, "zz_verif_replay_test.go")] = tf
	ovf := filepath.Join(tmp, "overlay.json")
	writeJSON(ovf, map[string]interface{}{"Replace": repl})
	bin := filepath.Join(tmp, "replay_"+sp.Pkg.Name()+".test")
	cmd := exec.Command("go", "test", "-c", "-vet=off", "-overlay", ovf, "-o", bin, pkg)
	cmd.Dir = e.spec.ModuleDir
	cmd.Env = append(os.Environ(), "GOFLAGS=-mod=mod", "GOPROXY=off", "GOSUMDB=off", "GOTOOLCHAIN=local")
	if b, err := cmd.CombinedOutput(); err != nil {
		return "", "", fmt.Errorf("%v: %s", err, b)
	}
	return bin, pkgDir, nil
}

func runReplay(bin, dir, rfile string, idx int, timeout time.Duration, extraEnv ...string) string {
	cmd := exec.Command("timeout", "-s", "KILL", fmt.Sprintf("%d", int(timeout.Seconds())), bin, "-test.run", "^TestVerifReplay$", "-test.v", "-test.timeout", "0")
	cmd.Dir = dir
	td, _ := os.MkdirTemp("", "verif-replay-home-")
	defer os.RemoveAll(td)
	cmd.Env = append(os.Environ(), "VERIF_REPLAY="+rfile, fmt.Sprintf("VERIF_REPLAY_INDEX=%d", idx), "HOME="+td, "XDG_CONFIG_HOME="+td, "VERIF_TMP="+td)
	for _, e := range extraEnv {
		if e != "" {
			cmd.Env = append(cmd.Env, e)
		}
	}
	tStart := time.Now()
	b, err := cmd.CombinedOutput()
	if os.Getenv("VERIF_TRACE") != "" {
		os.Stderr.Write(b)
	}
	timedOut := time.Since(tStart) >= timeout-500*time.Millisecond
	txt := string(b)
	var viol []string
	ended, panicked, assumeFailed := false, "", false
	for _, line := range strings.Split(txt, "\n") {
		if !strings.HasPrefix(line, "VERIF-REPLAY") {
			continue
		}
		switch {
		case strings.Contains(line, " violated label="):
			l := line[strings.Index(line, "label=")+6:]
			if u, err := strconv.Unquote(l); err == nil {
				l = u
			}
			viol = append(viol, l)
		case strings.Contains(line, " end violated="), strings.Contains(line, " stopped violated="):
			ended = true
		case strings.Contains(line, " assume-failed"):
			assumeFailed = true
		case strings.Contains(line, " panic "):
			panicked = line[strings.Index(line, " panic ")+7:]
		}
	}
	vs := ""
	for _, l := range viol {
		vs += "violated:" + l + ";"
	}
	switch {
	case panicked != "":
		return "panic(" + panicked + ") " + vs
	case assumeFailed:
		return "assume-failed " + vs
	case ended:
		if vs == "" {
			return "ok"
		}
		return vs
	}
	if err != nil {
		if ee, ok := err.(*exec.ExitError); ok && (timedOut || ee.ExitCode() == 137 || ee.ExitCode() == 124) {
			return "timeout " + vs
		}
		tail := txt
		if len(tail) > 300 {
			tail = tail[len(tail)-300:]
		}
		return "crash(" + strings.ReplaceAll(tail, "\n", " | ") + ") " + vs
	}
	return "unknown-output " + vs
}

func cmdReplay(args []string) int {
	if len(args) < 1 {
		fmt.Fprintln(os.Stderr, "usage: verif replay <file>")
		return 2
	}
	data, err := os.ReadFile(args[0])
	if err != nil {
		fmt.Fprintln(os.Stderr, err)
		return 2
	}
	var recs []replayRec
	if err := json.Unmarshal(data, &recs); err != nil || len(recs) == 0 {
		fmt.Fprintln(os.Stderr, "bad replay file")
		return 2
	}
	vd := verifDir()
	spec, err := loadSpecFile(vd, recs[0].Prop, recs[0].Part)
	if err != nil {
		fmt.Fprintln(os.Stderr, err)
		return 2
	}
	spec.Property = recs[0].Prop
	eng := &Engine{spec: spec, verifDir: vd, logw: os.Stderr}
	eng.initIntrinsics()
	eng.initIntrinsics2()
	eng.initThreadIntrinsics()
	eng.initReflectIntrinsics()
	if err := eng.load(); err != nil {
		fmt.Fprintln(os.Stderr, err)
		return 2
	}
	abs, _ := filepath.Abs(args[0])
	outs := eng.nativeReplay(abs, recs)
	rc := 0
	for i, r := range recs {
		ok := replayConfirms(r, outs[i])
		fmt.Printf("replay %d entry=%s kind=%s label=%q native=%s reproduced=%v\n", i, r.Entry, r.Kind, r.Label, outs[i], ok)
		if ok {
			rc = 1
		}
	}
	return rc
}
