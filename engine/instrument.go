package main

// Source instrumentation for the concurrency properties: a copy of selected files of
// /repo (made at run time from the current working tree, never written back) in which
//   - every method call on a sync/atomic type and every sync/atomic function call is
//     preceded by a scheduling point (vrt.Y around the receiver / first argument),
//   - sync.Mutex Lock/Unlock become vrt.Lock/vrt.Unlock (cooperative threads),
//   - selected plainly shared fields are accessed through a scheduling point.
// The same instrumented source is interpreted by the engine and compiled for native
// replay, so both see the same scheduling points.

import (
	"bytes"
	"fmt"
	"go/ast"
	"go/printer"
	"go/token"
	"go/types"
	"os"
	"path/filepath"
	"strings"

	"golang.org/x/tools/go/ast/astutil"
	"golang.org/x/tools/go/packages"
)

type Instrument struct {
	Pkg        string   `json:"pkg"`         // import path
	Files      []string `json:"files"`       // base names (empty: all non-test files)
	RacyFields []string `json:"racy_fields"` // plain fields accessed through a scheduling point when reached via a pointer
	MutexOnly  bool     `json:"mutex_only"`  // only sync.Mutex Lock/Unlock are rewritten (to vrt.LockQ/vrt.Unlock: no scheduling point of their own)
}

const vrtPath = "golang.org/x/telemetry/internal/vrt"

func (e *Engine) instrument(ov map[string][]byte) error {
	if len(e.spec.Instrument) == 0 {
		return nil
	}
	env := append(os.Environ(), "GOFLAGS=-mod=mod", "GOPROXY=off", "GOSUMDB=off", "GOTOOLCHAIN=local")
	var pats []string
	for _, in := range e.spec.Instrument {
		pats = append(pats, in.Pkg)
	}
	cfg := &packages.Config{
		Mode: packages.NeedName | packages.NeedFiles | packages.NeedSyntax | packages.NeedTypes | packages.NeedTypesInfo | packages.NeedImports | packages.NeedDeps,
		Dir:  e.spec.ModuleDir, Env: env,
	}
	pkgs, err := packages.Load(cfg, pats...)
	if err != nil {
		return err
	}
	for _, pkg := range pkgs {
		if len(pkg.Errors) > 0 {
			return fmt.Errorf("instrument: %v", pkg.Errors[0])
		}
		var in *Instrument
		for i := range e.spec.Instrument {
			if e.spec.Instrument[i].Pkg == pkg.PkgPath {
				in = &e.spec.Instrument[i]
			}
		}
		if in == nil {
			continue
		}
		racy := map[string]bool{}
		for _, f := range in.RacyFields {
			racy[f] = true
		}
		for _, file := range pkg.Syntax {
			fname := pkg.Fset.Position(file.Package).Filename
			base := filepath.Base(fname)
			if strings.HasSuffix(base, "_test.go") {
				continue
			}
			if len(in.Files) > 0 {
				found := false
				for _, f := range in.Files {
					if f == base {
						found = true
					}
				}
				if !found {
					continue
				}
			}
			n := instrumentFile(pkg.Fset, file, pkg.TypesInfo, racy, in.MutexOnly)
			if n == 0 {
				continue
			}
			astutil.AddImport(pkg.Fset, file, vrtPath)
			var buf bytes.Buffer
			if err := printer.Fprint(&buf, pkg.Fset, file); err != nil {
				return err
			}
			ov[fname] = buf.Bytes()
			e.instrumented = append(e.instrumented, fmt.Sprintf("%s (%d scheduling points)", fname, n))
		}
	}
	return nil
}

func isAtomicNamed(t types.Type) bool {
	if p, ok := t.(*types.Pointer); ok {
		t = p.Elem()
	}
	n, ok := t.(*types.Named)
	if !ok || n.Obj().Pkg() == nil {
		return false
	}
	return n.Obj().Pkg().Path() == "sync/atomic"
}

func isMutex(t types.Type) bool {
	if p, ok := t.(*types.Pointer); ok {
		t = p.Elem()
	}
	n, ok := t.(*types.Named)
	if !ok || n.Obj().Pkg() == nil {
		return false
	}
	return n.Obj().Pkg().Path() == "sync" && n.Obj().Name() == "Mutex"
}

func vrtCall(fn string, arg ast.Expr) *ast.CallExpr {
	return &ast.CallExpr{Fun: &ast.SelectorExpr{X: ast.NewIdent("vrt"), Sel: ast.NewIdent(fn)}, Args: []ast.Expr{arg}}
}

func addrOf(x ast.Expr) ast.Expr { return &ast.UnaryExpr{Op: token.AND, X: x} }

func instrumentFile(fset *token.FileSet, file *ast.File, info *types.Info, racy map[string]bool, mutexOnly bool) int {
	n := 0
	astutil.Apply(file, nil, func(c *astutil.Cursor) bool {
		switch x := c.Node().(type) {
		case *ast.CallExpr:
			sel, ok := x.Fun.(*ast.SelectorExpr)
			if !ok {
				return true
			}
			// package-level sync/atomic function
			if id, ok := sel.X.(*ast.Ident); ok {
				if pn, ok := info.Uses[id].(*types.PkgName); ok {
					if pn.Imported().Path() == "sync/atomic" && len(x.Args) > 0 && !mutexOnly {
						x.Args[0] = vrtCall("Y", x.Args[0])
						n++
					}
					return true
				}
			}
			recvT := info.TypeOf(sel.X)
			if recvT == nil {
				return true
			}
			if s, ok := info.Selections[sel]; ok && s.Kind() == types.MethodVal {
				// method of a sync/atomic type
				if isAtomicNamed(recvT) {
					if mutexOnly {
						return true
					}
					if _, isPtr := recvT.(*types.Pointer); isPtr {
						sel.X = vrtCall("Y", sel.X)
					} else {
						sel.X = vrtCall("Y", addrOf(sel.X))
					}
					n++
					return true
				}
				// sync.Mutex Lock / Unlock
				if isMutex(recvT) && (sel.Sel.Name == "Lock" || sel.Sel.Name == "Unlock") && len(x.Args) == 0 {
					name := sel.Sel.Name
					if mutexOnly && name == "Lock" {
						name = "LockQ"
					}
					x.Fun = &ast.SelectorExpr{X: ast.NewIdent("vrt"), Sel: ast.NewIdent(name)}
					if _, isPtr := recvT.(*types.Pointer); isPtr {
						x.Args = []ast.Expr{sel.X}
					} else {
						x.Args = []ast.Expr{addrOf(sel.X)}
					}
					n++
					return true
				}
			}
		case *ast.SelectorExpr:
			if mutexOnly || !racy[x.Sel.Name] {
				return true
			}
			if s, ok := info.Selections[x]; !ok || s.Kind() != types.FieldVal {
				return true
			}
			if _, isPtr := info.TypeOf(x.X).(*types.Pointer); isPtr {
				x.X = vrtCall("Y", x.X)
				n++
			}
		}
		return true
	})
	return n
}
