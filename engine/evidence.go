package main

import (
	"encoding/json"
	"fmt"
	"go/types"
	"os"
	"path/filepath"
	"sort"
	"time"

	"golang.org/x/tools/go/ssa"
)

func buildEvidence(spec *Spec, tier string, seed int, results []*EntryResult, ws []*Worker, stats SolverStats,
	loadT, exploreT, wall time.Duration, nviol, nknown, ninconcl int, confirmed, inconclusive []string) map[string]interface{} {

	paths, done, asserts, discharged, trivial, unknown, steps := 0, 0, 0, 0, 0, 0, 0
	nontrivial := 0
	var samples []interface{}
	var entriesEv []interface{}
	unwinding := map[string]interface{}{}
	vac := map[string]interface{}{}
	incompleteNotes := []string{}
	for _, er := range results {
		paths += er.Paths
		done += er.Done
		asserts += er.Asserts
		discharged += er.Discharged
		trivial += er.Trivial
		unknown += er.Unknown
		steps += er.Steps
		nontrivial += er.Done + er.Stopped
		nu, nw := 0, 0
		for _, c := range er.Unsupported {
			nu += c
		}
		for _, c := range er.Unwound {
			nw += c
		}
		ent := map[string]interface{}{
			"entry": er.Cfg.Func, "clause": er.Cfg.Clause, "paths_explored": er.Paths, "paths_completed": er.Done,
			"paths_infeasible": er.Infeasible, "paths_stopped": er.Stopped, "paths_unsupported": nu,
			"paths_cut_by_unwinding_bound": nw, "paths_over_budget": er.Budget,
			"assertions_checked": er.Asserts, "assertions_discharged_unsat": er.Discharged,
			"assertions_concretely_true": er.Trivial, "assertions_unknown": er.Unknown,
			"violations_found": len(er.Violations), "unwind_bound": er.Cfg.Unwind, "params": er.Cfg.Params,
			"wall_s": er.Wall.Seconds(), "truncated": er.Truncated, "note": er.Cfg.Note,
		}
		if nu > 0 {
			ent["unsupported"] = er.Unsupported
			incompleteNotes = append(incompleteNotes, fmt.Sprintf("%s: %d paths ended in constructs the encoder does not support (not covered)", er.Cfg.Func, nu))
		}
		if nw > 0 {
			ent["unwound"] = er.Unwound
			if !er.Cfg.Total {
				incompleteNotes = append(incompleteNotes, fmt.Sprintf("%s: %d paths cut at the unwinding bound (claim limited to the bound)", er.Cfg.Func, nw))
			}
		}
		if er.Truncated || er.Budget > 0 {
			incompleteNotes = append(incompleteNotes, fmt.Sprintf("%s: exploration truncated by path/time/step budget", er.Cfg.Func))
		}
		if er.Unknown > 0 {
			incompleteNotes = append(incompleteNotes, fmt.Sprintf("%s: %d solver answers were unknown (treated as not discharged)", er.Cfg.Func, er.Unknown))
		}
		unwinding[er.Cfg.Func] = map[string]interface{}{"bound": er.Cfg.Unwind, "paths_cut": nw, "discharged": nw == 0}
		vac[er.Cfg.Func] = map[string]interface{}{"completed_paths": er.Done + er.Stopped, "reach_labels": er.Reached, "non_vacuous": er.Done+er.Stopped > 0 && er.Asserts > 0}
		entriesEv = append(entriesEv, ent)
		for _, s := range er.PCSamples {
			if len(samples) < 12 {
				samples = append(samples, map[string]string{"entry": er.Cfg.Func, "path_condition": s})
			}
		}
		for _, s := range er.DecSamples {
			if len(samples) < 24 {
				samples = append(samples, map[string]string{"entry": er.Cfg.Func, "decision_sequence": s})
			}
		}
	}
	if len(samples) == 0 {
		for _, er := range results {
			samples = append(samples, map[string]string{"entry": er.Cfg.Func, "path_condition": "true (single concrete path; assertions are the queries)"})
		}
	}
	cov := map[string]interface{}{
		"evaluations":         stats.Queries,
		"distinct_nontrivial": nontrivial,
		"rule":                "evaluations = SMT queries sent (branch feasibility + assertion negations); distinct_nontrivial = distinct feasible execution paths of the harness entries (each a distinct decision sequence with a satisfiable path condition) that ran to completion or to a recorded stop",
		"samples":             samples,
		"states":              maxInt(paths, 1),
		"transitions":         maxInt(steps, 1),
		"traces_validated_against_impl": nviol + nknown,
		"functions_encoded":   funcList(ws),
		"entries":             entriesEv,
		"bounds":              spec.Bounds,
		"outside_claim":       spec.Outside,
		"queries":             map[string]int{"total": stats.Queries, "sat": stats.Sat, "unsat": stats.Unsat, "unknown": stats.Unknown, "solver_errors": stats.Errors},
		"assertions":          map[string]int{"checked": asserts, "discharged_unsat": discharged, "concretely_true": trivial, "unknown": unknown},
		"unwinding":           unwinding,
		"vacuity":             vac,
		"solver_s":            stats.Time.Seconds(),
		"cross_solver":        map[string]interface{}{"queries_rechecked": stats.CrossChecked, "agree": stats.CrossAgree, "disagree": stats.CrossDisagree, "other_solvers_inconclusive": stats.CrossInconclusive, "with": "z3 4.8.12 (/usr/bin/z3) and cvc5, standalone scripts of sampled sat/unsat queries"},
		"load_ssa_s":          loadT.Seconds(),
		"explore_s":           exploreT.Seconds(),
		"solver":              solverDesc,
		"stubs":               spec.Stubs,
		"instrumented_sources": instrumentedSources,
		"known_findings_reported": nknown,
		"inconclusive_models": inconclusive,
		"confirmed_violations": confirmed,
		"incomplete":          incompleteNotes,
		"exhaustive":          false,
		"translator_selftest": selftestSummary(),
	}
	ev := map[string]interface{}{
		"property_id": spec.Property,
		"tier":        tier,
		"seed":        seed,
		"level":       "model_checking",
		"coverage":    cov,
		"assumptions": spec.Assumptions,
		"wall_s":      wall.Seconds(),
		"violations":  nviol,
	}
	return ev
}

var solverDesc = "z3"

// selftestSummary reports the last committed run of `verif selftest` (the comparison of
// the encoding with the compiled code that every check relies on); it is not re-run by a
// check.
func selftestSummary() map[string]interface{} {
	out := map[string]interface{}{"command": "bin/verif selftest", "ran_by_this_check": false}
	data, err := os.ReadFile(filepath.Join(verifDir(), "selftest", "result.json"))
	if err != nil {
		out["last_result"] = "none recorded"
		return out
	}
	var r map[string]interface{}
	if json.Unmarshal(data, &r) != nil {
		out["last_result"] = "unreadable"
		return out
	}
	for _, k := range []string{"vectors_compared", "agree", "mismatch", "problems", "models_per_path"} {
		out[k] = r[k]
	}
	return out
}

// instrumentedSources lists the files of /repo that were instrumented for this run.
var instrumentedSources []string

func maxInt(a, b int) int {
	if a > b {
		return a
	}
	return b
}

// second batch of intrinsics (needs types)
func (e *Engine) initIntrinsics2() {
	in := e.intr
	in["vrt.SliceLen"] = func(p *Path, fn *ssa.Function, args []Value) Value {
		s := args[0].(*Iface).V.(*Slice)
		if s.Obj == nil {
			return p.tt.Const(64, 0)
		}
		return s.Len
	}
	in["vrt.SliceSwap"] = func(p *Path, fn *ssa.Function, args []Value) Value {
		iv := args[0].(*Iface)
		s := iv.V.(*Slice)
		et := iv.T.Underlying().(*types.Slice).Elem()
		pi := p.sliceElemPtr(s, args[1].(*Term), et)
		pj := p.sliceElemPtr(s, args[2].(*Term), et)
		a := p.load(pi, et)
		b := p.load(pj, et)
		p.store(pi, et, b)
		p.store(pj, et, a)
		return nil
	}
}

var _ = sort.Strings
