package main

import (
	"fmt"
	"go/types"

	"golang.org/x/tools/go/ssa"
)

// Value is one of: *Term, *Str, *Ptr, *Slice, *Struct, *Arr, *Iface, *Func, *MapRef, *Tuple, *Opaque
type Value interface{}

type Str struct{ B []*Term } // immutable; each element BV8

// SymLenStr is a string of symbolic length and opaque content: only len() is supported.
type SymLenStr struct{ Len *Term }

type PathEl struct {
	Field int
	Idx   *Term // non-nil for array index (BV64)
}

// Ptr is a pointer. Obj == nil means nil pointer.
// If Obj.Buf != nil the pointer is a byte address (Off) into the byte buffer,
// otherwise Path navigates the structured value Obj.V.
type Ptr struct {
	Obj  *Obj
	Path []PathEl
	Off  *Term // BV64 byte offset for byte buffers
}

type Slice struct {
	Obj  *Obj     // nil => nil slice
	Path []PathEl // path to the array within Obj (structured objects)
	Off  *Term    // BV64 element offset within the array / byte offset within buffer
	Len  *Term    // BV64
	Cap  *Term    // BV64
}

type Struct struct{ F []Value }
type Arr struct{ E []Value }
type Tuple struct{ V []Value }

type Iface struct {
	T types.Type // nil => nil interface
	V Value
}

type Func struct {
	Fn      *ssa.Function
	Env     []Value
	Builtin *ssa.Builtin
	// bound method value: Recv != nil
	Recv  Value
	Nil   bool
	Intr  string // intrinsic name (function without body handled natively)
}

type MapObj struct {
	ID   int
	Keys []Value
	Vals []Value
	T    *types.Map
}
type MapRef struct{ M *MapObj }

// Opaque values stand for things the engine does not model (e.g. *regexp.Regexp).
type Opaque struct {
	Kind string
	Data interface{}
}

type ByteBuf struct {
	N     int
	Cells []*Term // per-byte terms (cells mode) or nil
	Arr   *Term   // SMT array (array mode)
	Dead  bool
}

type Obj struct {
	ID   int
	T    types.Type
	V    Value    // boxed value (structured)
	Buf  *ByteBuf // byte buffer objects (several Obj may share one ByteBuf: mappings of one file)
	Name string
	Dead bool // unmapped view
	Uninit bool // package-level variable whose initialiser was not executed (init skipped or cut short)
	Lim  int  // view length in bytes (0: whole buffer)
}

func bufN(o *Obj) int {
	if o.Lim > 0 {
		return o.Lim
	}
	return o.Buf.N
}

func (p *Path) newObj(t types.Type, v Value, name string) *Obj {
	p.nobj++
	return &Obj{ID: p.nobj, T: t, V: v, Name: name}
}

func (p *Path) newBuf(n int, name string) *Obj {
	p.nobj++
	zero := p.tt.Const(8, 0)
	cells := make([]*Term, n)
	for i := range cells {
		cells[i] = zero
	}
	return &Obj{ID: p.nobj, Buf: &ByteBuf{N: n, Cells: cells}, Name: name}
}

func (b *ByteBuf) toArray(tt *TermTable) {
	if b.Arr != nil {
		return
	}
	arr := tt.ConstArr(0)
	for i, c := range b.Cells {
		if c.IsConst() && c.C == 0 {
			continue
		}
		arr = tt.Store(arr, tt.Const(64, uint64(i)), c)
	}
	b.Arr = arr
	b.Cells = nil
}

func isByteType(t types.Type) bool {
	b, ok := t.Underlying().(*types.Basic)
	return ok && (b.Kind() == types.Uint8 || b.Kind() == types.Byte)
}

func intWidth(b *types.Basic) (w int, signed bool) {
	switch b.Kind() {
	case types.Int8:
		return 8, true
	case types.Int16:
		return 16, true
	case types.Int32, types.UntypedRune:
		return 32, true
	case types.Int64, types.Int, types.UntypedInt:
		return 64, true
	case types.Uint8:
		return 8, false
	case types.Uint16:
		return 16, false
	case types.Uint32:
		return 32, false
	case types.Uint64, types.Uint, types.Uintptr:
		return 64, false
	}
	return 0, false
}

func isInt(t types.Type) bool {
	b, ok := t.Underlying().(*types.Basic)
	return ok && b.Info()&types.IsInteger != 0
}
func isFloat(t types.Type) bool {
	b, ok := t.Underlying().(*types.Basic)
	return ok && b.Info()&types.IsFloat != 0
}
func isString(t types.Type) bool {
	b, ok := t.Underlying().(*types.Basic)
	return ok && b.Info()&types.IsString != 0
}
func isBool(t types.Type) bool {
	b, ok := t.Underlying().(*types.Basic)
	return ok && b.Info()&types.IsBoolean != 0
}

func typeWidth(t types.Type) (int, bool) {
	b, ok := t.Underlying().(*types.Basic)
	if !ok {
		panic(fmt.Sprintf("typeWidth of %v", t))
	}
	if b.Kind() == types.UnsafePointer {
		return 64, false
	}
	return intWidth(b)
}

// zero returns the zero value of type t.
func (p *Path) zero(t types.Type) Value {
	switch u := t.Underlying().(type) {
	case *types.Basic:
		switch {
		case u.Info()&types.IsBoolean != 0:
			return p.tt.False()
		case u.Info()&types.IsInteger != 0:
			w, _ := intWidth(u)
			return p.tt.Const(w, 0)
		case u.Info()&types.IsFloat != 0:
			return p.tt.FPConst(0)
		case u.Info()&types.IsString != 0:
			return &Str{}
		case u.Kind() == types.UnsafePointer:
			return &Ptr{}
		case u.Kind() == types.UntypedNil:
			return &Ptr{}
		}
	case *types.Pointer:
		return &Ptr{}
	case *types.Slice:
		return &Slice{}
	case *types.Struct:
		s := &Struct{F: make([]Value, u.NumFields())}
		for i := range s.F {
			s.F[i] = p.zero(u.Field(i).Type())
		}
		return s
	case *types.Array:
		a := &Arr{E: make([]Value, u.Len())}
		for i := range a.E {
			a.E[i] = p.zero(u.Elem())
		}
		return a
	case *types.Interface:
		return &Iface{}
	case *types.Signature:
		return &Func{Nil: true}
	case *types.Map:
		return &MapRef{}
	case *types.Chan:
		return &Opaque{Kind: "chan"}
	case *types.Tuple:
		tu := &Tuple{V: make([]Value, u.Len())}
		for i := range tu.V {
			tu.V[i] = p.zero(u.At(i).Type())
		}
		return tu
	}
	panic(p.unsupported("zero value of type %v", t))
}

// copyVal deep-copies aggregates (value semantics).
func copyVal(v Value) Value {
	switch x := v.(type) {
	case *Struct:
		n := &Struct{F: make([]Value, len(x.F))}
		for i, f := range x.F {
			n.F[i] = copyVal(f)
		}
		return n
	case *Arr:
		n := &Arr{E: make([]Value, len(x.E))}
		for i, e := range x.E {
			n.E[i] = copyVal(e)
		}
		return n
	}
	return v
}

func (p *Path) cint(t *Term) (int, bool) {
	if t.IsConst() {
		return int(sext(t.C, t.S.W)), true
	}
	return 0, false
}

// mustInt returns the concrete value of t, forking over feasible values if symbolic.
func (p *Path) mustInt(t *Term, what string) int {
	if v, ok := p.cint(t); ok {
		return v
	}
	c := p.concretize(t, what)
	return int(sext(c, t.S.W))
}

// ---- navigation inside structured objects ----

// navigate returns a pointer to the slot (as a settable reference) at path.
type slot struct {
	get func() Value
	set func(Value)
}

func (p *Path) slotAt(o *Obj, path []PathEl) slot {
	if o.Buf != nil {
		panic(p.unsupported("structured access into byte buffer %s", o.Name))
	}
	cur := slot{get: func() Value { return o.V }, set: func(v Value) { o.V = v }}
	for _, el := range path {
		v := cur.get()
		if el.Idx != nil {
			a, ok := v.(*Arr)
			if !ok {
				panic(p.unsupported("index into non-array %T", v))
			}
			i := p.mustInt(el.Idx, "array index")
			if i < 0 || i >= len(a.E) {
				panic(p.unsupported("internal: array index %d out of range %d (should have been checked)", i, len(a.E)))
			}
			cur = slot{get: func() Value { return a.E[i] }, set: func(v Value) { a.E[i] = v }}
		} else {
			s, ok := v.(*Struct)
			if !ok {
				panic(p.unsupported("field of non-struct %T", v))
			}
			f := el.Field
			cur = slot{get: func() Value { return s.F[f] }, set: func(v Value) { s.F[f] = v }}
		}
	}
	return cur
}

func appendPath(path []PathEl, el PathEl) []PathEl {
	n := make([]PathEl, len(path)+1)
	copy(n, path)
	n[len(path)] = el
	return n
}

// ---- byte buffer access ----

func (p *Path) bufCheck(o *Obj) {
	if o.Buf.Dead || o.Dead {
		p.fault("access through unmapped memory (%s)", o.Name)
	}
}

func (p *Path) bufRead(o *Obj, off *Term) *Term {
	b := o.Buf
	p.bufCheck(o)
	if i, ok := p.cint(off); ok {
		if i >= bufN(o) && i < (bufN(o)+7)/8*8 {
			return p.tt.Fresh("padding", BV(8)) // allocation padding: arbitrary content
		}
		if i < 0 || i >= bufN(o) {
			p.fault("byte read out of buffer %s: %d/%d", o.Name, i, bufN(o))
		}
		if b.Cells != nil {
			return b.Cells[i]
		}
		return p.tt.Select(b.Arr, off)
	}
	if b.Cells != nil && bufN(o) <= 64 {
		// ite chain
		r := b.Cells[bufN(o)-1]
		for i := bufN(o) - 2; i >= 0; i-- {
			r = p.tt.Ite(p.tt.Eq(off, p.tt.Const(64, uint64(i))), b.Cells[i], r)
		}
		return r
	}
	if b.Cells != nil {
		// sparse read: only cells that are not constant zero matter
		var idx []int
		for i, c := range b.Cells {
			if !(c.IsConst() && c.C == 0) {
				idx = append(idx, i)
				if len(idx) > 192 {
					break
				}
			}
		}
		if len(idx) <= 192 {
			r := p.tt.Const(8, 0)
			for k := len(idx) - 1; k >= 0; k-- {
				r = p.tt.Ite(p.tt.Eq(off, p.tt.Const(64, uint64(idx[k]))), b.Cells[idx[k]], r)
			}
			if bufN(o)%8 == 0 {
				return r
			}
			return p.tt.Ite(p.tt.Ult(off, p.tt.Const(64, uint64(bufN(o)))), r, p.tt.Fresh("padding", BV(8)))
		}
	}
	b.toArray(p.tt)
	r := p.tt.Select(b.Arr, off)
	if bufN(o)%8 != 0 {
		// bytes in the allocation padding are arbitrary
		r = p.tt.Ite(p.tt.Ult(off, p.tt.Const(64, uint64(bufN(o)))), r, p.tt.Fresh("padding", BV(8)))
	}
	return r
}

func (p *Path) bufWrite(o *Obj, off *Term, v *Term) {
	b := o.Buf
	p.bufCheck(o)
	if i, ok := p.cint(off); ok {
		if i < 0 || i >= bufN(o) {
			p.fault("byte write out of buffer %s: %d/%d", o.Name, i, bufN(o))
		}
		if b.Cells != nil {
			b.Cells[i] = v
			return
		}
		b.Arr = p.tt.Store(b.Arr, off, v)
		return
	}
	if b.Cells != nil && bufN(o) <= 64 {
		for i := 0; i < bufN(o); i++ {
			b.Cells[i] = p.tt.Ite(p.tt.Eq(off, p.tt.Const(64, uint64(i))), v, b.Cells[i])
		}
		return
	}
	b.toArray(p.tt)
	b.Arr = p.tt.Store(b.Arr, off, v)
}

// readLE reads nbytes little-endian starting at off.
func (p *Path) bufReadLE(o *Obj, off *Term, nbytes int) *Term {
	// bounds: off+nbytes <= N must hold; check symbolic
	p.bufBounds(o, off, nbytes)
	var r *Term
	for i := 0; i < nbytes; i++ {
		b := p.bufRead(o, p.tt.Add(off, p.tt.Const(64, uint64(i))))
		if r == nil {
			r = b
		} else {
			r = p.tt.Concat(b, r)
		}
	}
	return r
}

func (p *Path) bufWriteLE(o *Obj, off *Term, v *Term, nbytes int) {
	p.bufBounds(o, off, nbytes)
	for i := 0; i < nbytes; i++ {
		p.bufWrite(o, p.tt.Add(off, p.tt.Const(64, uint64(i))), p.tt.Extract(v, i*8+7, i*8))
	}
}

// bufBounds asserts (as a memory-fault check) that [off, off+n) lies in the buffer.
// Allocations are padded to a multiple of 8 bytes (Go size classes, page-multiple mmaps):
// an unsafe multi-byte access may extend into that padding without faulting; bytes read
// there are unconstrained (see bufRead), writes there are faults.
func (p *Path) bufBounds(o *Obj, off *Term, n int) {
	if _, ok := p.cint(off); ok {
		return // checked on access
	}
	lim := p.tt.Const(64, uint64((bufN(o)+7)/8*8-n))
	okc := p.tt.Ule(off, lim)
	if !p.branch(okc) {
		p.fault("memory access outside buffer %s (len %d)", o.Name, bufN(o))
	}
}

// ---- typed load/store ----

func sizeofBasic(t types.Type) int {
	w, _ := typeWidth(t)
	return w / 8
}

var stdSizes = types.SizesFor("gc", "amd64")

func (p *Path) load(ptr *Ptr, t types.Type) Value {
	if ptr.Obj == nil {
		p.goPanicRuntime("invalid memory address or nil pointer dereference")
	}
	if ptr.Obj.Uninit {
		panic(p.unsupported("read of %s, whose package initialisation is not executed by the engine", ptr.Obj.Name))
	}
	if ptr.Obj.Buf != nil {
		return p.loadBytes(ptr.Obj, ptr.Off, t)
	}
	// structured; fast path for symbolic last index over scalar arrays
	if n := len(ptr.Path); n > 0 && ptr.Path[n-1].Idx != nil && !ptr.Path[n-1].Idx.IsConst() {
		par := p.slotAt(ptr.Obj, ptr.Path[:n-1]).get()
		if a, ok := par.(*Arr); ok && len(a.E) > 0 && len(a.E) <= 1024 {
			if _, isT := a.E[0].(*Term); isT {
				idx := ptr.Path[n-1].Idx
				r := a.E[len(a.E)-1].(*Term)
				for i := len(a.E) - 2; i >= 0; i-- {
					r = p.tt.Ite(p.tt.Eq(idx, p.tt.Const(64, uint64(i))), a.E[i].(*Term), r)
				}
				return r
			}
		}
	}
	v := p.slotAt(ptr.Obj, ptr.Path).get()
	// typed view mismatch: loading a wider scalar through a pointer to a byte inside an array
	if tv, ok := v.(*Term); ok && tv.S.K == SBV {
		if b, ok2 := t.Underlying().(*types.Basic); ok2 && b.Info()&types.IsInteger != 0 {
			w, _ := intWidth(b)
			if w != tv.S.W {
				return p.loadCellsLE(ptr, w/8)
			}
		}
	}
	if st, ok := t.Underlying().(*types.Struct); ok {
		if _, isT := v.(*Term); isT {
			// overlay struct over bytes in a cell array
			return p.loadOverlay(ptr, st)
		}
	}
	return copyVal(v)
}

// loadCellsLE reads n consecutive byte cells starting at ptr (pointer to a byte element of an Arr).
func (p *Path) loadCellsLE(ptr *Ptr, n int) *Term {
	last := len(ptr.Path) - 1
	if last < 0 || ptr.Path[last].Idx == nil {
		panic(p.unsupported("typed view over non-array byte"))
	}
	base := ptr.Path[last].Idx
	var r *Term
	for i := 0; i < n; i++ {
		np := append(append([]PathEl{}, ptr.Path[:last]...), PathEl{Idx: p.tt.Add(base, p.tt.Const(64, uint64(i)))})
		b := p.load(&Ptr{Obj: ptr.Obj, Path: np}, types.Typ[types.Uint8]).(*Term)
		if r == nil {
			r = b
		} else {
			r = p.tt.Concat(b, r)
		}
	}
	return r
}

func (p *Path) loadOverlay(ptr *Ptr, st *types.Struct) Value {
	panic(p.unsupported("struct overlay over cell array"))
}

func (p *Path) loadBytes(o *Obj, off *Term, t types.Type) Value {
	switch u := t.Underlying().(type) {
	case *types.Basic:
		if u.Info()&types.IsInteger != 0 {
			w, _ := intWidth(u)
			return p.bufReadLE(o, off, w/8)
		}
		if u.Info()&types.IsBoolean != 0 {
			b := p.bufReadLE(o, off, 1)
			return p.tt.Not(p.tt.Eq(b, p.tt.Const(8, 0)))
		}
	case *types.Struct:
		s := &Struct{F: make([]Value, u.NumFields())}
		fields := make([]*types.Var, u.NumFields())
		for i := range fields {
			fields[i] = u.Field(i)
		}
		offs := stdSizes.Offsetsof(fields)
		for i := range s.F {
			ft := u.Field(i).Type()
			if stdSizes.Sizeof(ft) == 0 {
				s.F[i] = p.zero(ft)
				continue
			}
			s.F[i] = p.loadBytes(o, p.tt.Add(off, p.tt.Const(64, uint64(offs[i]))), ft)
		}
		return s
	case *types.Array:
		a := &Arr{E: make([]Value, u.Len())}
		es := stdSizes.Sizeof(u.Elem())
		for i := range a.E {
			a.E[i] = p.loadBytes(o, p.tt.Add(off, p.tt.Const(64, uint64(int64(i)*es))), u.Elem())
		}
		return a
	}
	panic(p.unsupported("load of type %v from byte buffer", t))
}

func (p *Path) storeBytes(o *Obj, off *Term, t types.Type, v Value) {
	switch u := t.Underlying().(type) {
	case *types.Basic:
		if u.Info()&types.IsInteger != 0 {
			w, _ := intWidth(u)
			p.bufWriteLE(o, off, v.(*Term), w/8)
			return
		}
	case *types.Struct:
		fields := make([]*types.Var, u.NumFields())
		for i := range fields {
			fields[i] = u.Field(i)
		}
		offs := stdSizes.Offsetsof(fields)
		sv := v.(*Struct)
		for i := range sv.F {
			ft := u.Field(i).Type()
			if stdSizes.Sizeof(ft) == 0 {
				continue
			}
			p.storeBytes(o, p.tt.Add(off, p.tt.Const(64, uint64(offs[i]))), ft, sv.F[i])
		}
		return
	case *types.Array:
		av := v.(*Arr)
		es := stdSizes.Sizeof(u.Elem())
		for i := range av.E {
			p.storeBytes(o, p.tt.Add(off, p.tt.Const(64, uint64(int64(i)*es))), u.Elem(), av.E[i])
		}
		return
	}
	panic(p.unsupported("store of type %v into byte buffer", t))
}

func (p *Path) store(ptr *Ptr, t types.Type, v Value) {
	if ptr.Obj == nil {
		p.goPanicRuntime("invalid memory address or nil pointer dereference")
	}
	if ptr.Obj.Uninit {
		ptr.Obj.Uninit = false
	}
	if ptr.Obj.Buf != nil {
		p.storeBytes(ptr.Obj, ptr.Off, t, v)
		return
	}
	if n := len(ptr.Path); n > 0 && ptr.Path[n-1].Idx != nil && !ptr.Path[n-1].Idx.IsConst() {
		par := p.slotAt(ptr.Obj, ptr.Path[:n-1]).get()
		if a, ok := par.(*Arr); ok && len(a.E) > 0 && len(a.E) <= 1024 {
			if nv, isT := v.(*Term); isT {
				if _, isT2 := a.E[0].(*Term); isT2 && a.E[0].(*Term).S == nv.S {
					idx := ptr.Path[n-1].Idx
					for i := range a.E {
						a.E[i] = p.tt.Ite(p.tt.Eq(idx, p.tt.Const(64, uint64(i))), nv, a.E[i].(*Term))
					}
					return
				}
			}
		}
	}
	sl := p.slotAt(ptr.Obj, ptr.Path)
	if tv, ok := v.(*Term); ok && tv.S.K == SBV {
		if old, ok2 := sl.get().(*Term); ok2 && old.S.K == SBV && old.S.W != tv.S.W {
			// typed store wider than the byte cell
			if old.S.W == 8 {
				last := len(ptr.Path) - 1
				base := ptr.Path[last].Idx
				for i := 0; i < tv.S.W/8; i++ {
					np := append(append([]PathEl{}, ptr.Path[:last]...), PathEl{Idx: p.tt.Add(base, p.tt.Const(64, uint64(i)))})
					p.store(&Ptr{Obj: ptr.Obj, Path: np}, types.Typ[types.Uint8], p.tt.Extract(tv, i*8+7, i*8))
				}
				return
			}
			panic(p.unsupported("typed store width mismatch %d vs %d", old.S.W, tv.S.W))
		}
	}
	sl.set(copyVal(v))
}

// ---- equality ----

func (p *Path) eqValue(a, b Value) *Term {
	tt := p.tt
	switch x := a.(type) {
	case *Term:
		y, ok := b.(*Term)
		if !ok {
			return tt.False()
		}
		if x.S.K == SFP {
			return tt.FPEq(x, y)
		}
		if x.S != y.S {
			panic(p.unsupported("eq on different sorts %v %v", x.S, y.S))
		}
		return tt.Eq(x, y)
	case *Str:
		y := b.(*Str)
		if len(x.B) != len(y.B) {
			return tt.False()
		}
		cs := make([]*Term, 0, len(x.B))
		for i := range x.B {
			cs = append(cs, tt.Eq(x.B[i], y.B[i]))
		}
		return tt.And(cs...)
	case *Ptr:
		y, ok := b.(*Ptr)
		if !ok {
			return tt.False()
		}
		if x.Obj != y.Obj {
			return tt.False()
		}
		if x.Obj == nil {
			return tt.True()
		}
		if x.Obj.Buf != nil {
			return tt.Eq(x.Off, y.Off)
		}
		if len(x.Path) != len(y.Path) {
			return tt.False()
		}
		cs := []*Term{}
		for i := range x.Path {
			if (x.Path[i].Idx == nil) != (y.Path[i].Idx == nil) {
				return tt.False()
			}
			if x.Path[i].Idx != nil {
				cs = append(cs, tt.Eq(x.Path[i].Idx, y.Path[i].Idx))
			} else if x.Path[i].Field != y.Path[i].Field {
				return tt.False()
			}
		}
		return tt.And(cs...)
	case *Struct:
		y := b.(*Struct)
		cs := []*Term{}
		for i := range x.F {
			cs = append(cs, p.eqValue(x.F[i], y.F[i]))
		}
		return tt.And(cs...)
	case *Arr:
		y := b.(*Arr)
		cs := []*Term{}
		for i := range x.E {
			cs = append(cs, p.eqValue(x.E[i], y.E[i]))
		}
		return tt.And(cs...)
	case *Iface:
		y, ok := b.(*Iface)
		if !ok {
			return tt.False()
		}
		if x.T == nil || y.T == nil {
			return tt.Bool(x.T == nil && y.T == nil)
		}
		if !types.Identical(x.T, y.T) {
			return tt.False()
		}
		return p.eqValue(x.V, y.V)
	case *MapRef:
		y := b.(*MapRef)
		return tt.Bool(x.M == y.M)
	case *Func:
		y := b.(*Func)
		if x.Nil || y.Nil {
			return tt.Bool(x.Nil && y.Nil)
		}
		return tt.Bool(x.Fn == y.Fn && x.Builtin == y.Builtin)
	case *Slice:
		y := b.(*Slice)
		if x.Obj == nil || y.Obj == nil {
			return tt.Bool(x.Obj == nil && y.Obj == nil)
		}
		panic(p.unsupported("slice comparison"))
	case *Opaque:
		y, ok := b.(*Opaque)
		if ok && x.Kind == "chan" && y.Kind == "chan" && x.Data == nil && y.Data == nil {
			return tt.True() // both nil channels
		}
		return tt.Bool(ok && x == y)
	}
	panic(p.unsupported("eqValue on %T", a))
}

// ---- slices ----

func (p *Path) sliceElemPtr(s *Slice, idx *Term, elem types.Type) *Ptr {
	if s.Obj.Buf != nil {
		es := uint64(1)
		if !isByteType(elem) {
			es = uint64(stdSizes.Sizeof(elem))
		}
		return &Ptr{Obj: s.Obj, Off: p.tt.Add(s.Off, p.tt.Mul(idx, p.tt.Const(64, es)))}
	}
	return &Ptr{Obj: s.Obj, Path: appendPath(s.Path, PathEl{Idx: p.tt.Add(s.Off, idx)})}
}

// sliceBytes returns the byte terms of s (a []byte with concrete length).
func (p *Path) sliceBytes(s *Slice) []*Term {
	if s.Obj == nil {
		return nil
	}
	n := p.mustInt(s.Len, "slice length")
	out := make([]*Term, n)
	for i := 0; i < n; i++ {
		ptr := p.sliceElemPtr(s, p.tt.Const(64, uint64(i)), types.Typ[types.Uint8])
		out[i] = p.load(ptr, types.Typ[types.Uint8]).(*Term)
	}
	return out
}

func (p *Path) bytesToSlice(bs []*Term, name string) *Slice {
	o := p.newBuf(len(bs), name)
	copy(o.Buf.Cells, bs)
	n := p.tt.Const(64, uint64(len(bs)))
	return &Slice{Obj: o, Off: p.tt.Const(64, 0), Len: n, Cap: n}
}

func (p *Path) concStr(s string) *Str {
	b := make([]*Term, len(s))
	for i := 0; i < len(s); i++ {
		b[i] = p.tt.Const(8, uint64(s[i]))
	}
	return &Str{B: b}
}

func strConcrete(s *Str) (string, bool) {
	b := make([]byte, len(s.B))
	for i, t := range s.B {
		if !t.IsConst() {
			return "", false
		}
		b[i] = byte(t.C)
	}
	return string(b), true
}
