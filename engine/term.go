package main

import (
	"fmt"
	"math"
	"math/bits"
	"strconv"
	"strings"
)

// Sorts
type SortKind uint8

const (
	SBool SortKind = iota
	SBV
	SFP  // Float64
	SArr // (Array (_ BitVec 64) (_ BitVec 8))
)

type Sort struct {
	K SortKind
	W int
}

func (s Sort) String() string {
	switch s.K {
	case SBool:
		return "Bool"
	case SBV:
		return fmt.Sprintf("(_ BitVec %d)", s.W)
	case SFP:
		return "(_ FloatingPoint 11 53)"
	case SArr:
		return "(Array (_ BitVec 64) (_ BitVec 8))"
	}
	return "?"
}

var BoolSort = Sort{SBool, 0}
var FPSort = Sort{SFP, 64}
var ArrSort = Sort{SArr, 0}

func BV(w int) Sort { return Sort{SBV, w} }

type Op uint8

const (
	OConst Op = iota
	OVar
	ONot
	OAnd
	OOr
	OIte
	OEq
	OAdd
	OSub
	OMul
	OUDiv
	OURem
	OSDiv
	OSRem
	OBAnd
	OBOr
	OBXor
	OBNot
	ONeg
	OShl
	OLShr
	OAShr
	OUlt
	OUle
	OSlt
	OSle
	OConcat
	OExtract
	OZExt
	OSExt
	OSelect
	OStore
	OConstArr
	OFPLt
	OFPLe
	OFPEq
	OFPAdd
	OFPSub
	OFPMul
	OFPDiv
	OFPNeg
	OFPAbs
	OFPIsNaN
	OFPIsInf
	OFPFromBits
	OFPToBits // modelled via fresh var + constraint; not directly emitted
	OSIntToFP
	OUIntToFP
	OFPToSInt
	OFPToUInt
	OApp
)

var opNames = map[Op]string{
	ONot: "not", OAnd: "and", OOr: "or", OIte: "ite", OEq: "=",
	OAdd: "bvadd", OSub: "bvsub", OMul: "bvmul", OUDiv: "bvudiv", OURem: "bvurem", OSDiv: "bvsdiv", OSRem: "bvsrem",
	OBAnd: "bvand", OBOr: "bvor", OBXor: "bvxor", OBNot: "bvnot", ONeg: "bvneg", OShl: "bvshl", OLShr: "bvlshr", OAShr: "bvashr",
	OUlt: "bvult", OUle: "bvule", OSlt: "bvslt", OSle: "bvsle", OConcat: "concat",
	OSelect: "select", OStore: "store",
	OFPLt: "fp.lt", OFPLe: "fp.leq", OFPEq: "fp.eq", OFPNeg: "fp.neg", OFPAbs: "fp.abs", OFPIsNaN: "fp.isNaN", OFPIsInf: "fp.isInfinite",
}

type Term struct {
	ID   int
	Op   Op
	S    Sort
	Args []*Term
	C    uint64 // constant value (bool: 0/1; bv: masked; fp: bits)
	Name string // var or app name
	P1   int    // extract hi / ext amount
	P2   int    // extract lo
	Lo, Hi uint64 // unsigned value interval (BV sorts only), sound over-approximation
}

func (t *Term) IsConst() bool { return t.Op == OConst }
func (t *Term) IsTrue() bool  { return t.Op == OConst && t.S.K == SBool && t.C == 1 }
func (t *Term) IsFalse() bool { return t.Op == OConst && t.S.K == SBool && t.C == 0 }

// TermTable hash-conses terms. One per worker (not thread-safe).
type TermTable struct {
	tab    map[string]*Term
	all    []*Term
	vars   []*Term
	apps   map[string]*Term // declared UFs: name -> representative app (for signature)
	nfresh int
}

func NewTermTable() *TermTable {
	return &TermTable{tab: map[string]*Term{}, apps: map[string]*Term{}}
}

func mask(w int) uint64 {
	if w >= 64 {
		return ^uint64(0)
	}
	return (uint64(1) << uint(w)) - 1
}

func (tt *TermTable) mk(op Op, s Sort, c uint64, name string, p1, p2 int, args ...*Term) *Term {
	var sb strings.Builder
	sb.WriteByte(byte(op))
	sb.WriteByte(byte(s.K))
	sb.WriteString(strconv.Itoa(s.W))
	sb.WriteByte('|')
	sb.WriteString(strconv.FormatUint(c, 16))
	sb.WriteByte('|')
	sb.WriteString(name)
	sb.WriteByte('|')
	sb.WriteString(strconv.Itoa(p1))
	sb.WriteByte(',')
	sb.WriteString(strconv.Itoa(p2))
	for _, a := range args {
		sb.WriteByte(',')
		sb.WriteString(strconv.Itoa(a.ID))
	}
	k := sb.String()
	if t, ok := tt.tab[k]; ok {
		return t
	}
	t := &Term{ID: len(tt.all), Op: op, S: s, Args: args, C: c, Name: name, P1: p1, P2: p2}
	if s.K == SBV {
		t.Lo, t.Hi = interval(t)
	}
	tt.all = append(tt.all, t)
	tt.tab[k] = t
	if op == OVar {
		tt.vars = append(tt.vars, t)
	}
	return t
}

// interval computes a sound unsigned interval for a freshly built BV term from the
// intervals of its arguments. Anything it does not understand gets the full range.
func interval(t *Term) (uint64, uint64) {
	w := t.S.W
	m := mask(w)
	full := func() (uint64, uint64) { return 0, m }
	a := func(i int) *Term { return t.Args[i] }
	switch t.Op {
	case OConst:
		return t.C, t.C
	case OZExt:
		return a(0).Lo, a(0).Hi
	case OSExt:
		iw := a(0).S.W
		if a(0).Hi < uint64(1)<<uint(iw-1) {
			return a(0).Lo, a(0).Hi
		}
	case OExtract:
		if t.P2 == 0 && a(0).Hi <= m {
			return a(0).Lo, a(0).Hi
		}
	case OAdd:
		x, y := a(0), a(1)
		hs, c1 := bits.Add64(x.Hi, y.Hi, 0)
		if c1 == 0 && hs <= m {
			return x.Lo + y.Lo, hs
		}
		// both ends wrap (typical for x + (-c) with x >= c)
		if w == 64 {
			ls, c0 := bits.Add64(x.Lo, y.Lo, 0)
			if c0 == 1 && c1 == 1 {
				return ls, hs
			}
		} else {
			ls := x.Lo + y.Lo
			hs := x.Hi + y.Hi
			if ls > m && hs > m && hs-ls <= m && ls>>uint(w) == hs>>uint(w) {
				return ls & m, hs & m
			}
		}
	case OSub:
		x, y := a(0), a(1)
		if x.Lo >= y.Hi {
			return x.Lo - y.Hi, x.Hi - y.Lo
		}
	case OMul:
		x, y := a(0), a(1)
		hh, hl := bits.Mul64(x.Hi, y.Hi)
		if hh == 0 && hl <= m {
			return x.Lo * y.Lo, hl
		}
	case OUDiv:
		x, y := a(0), a(1)
		if y.Lo > 0 {
			return x.Lo / y.Hi, x.Hi / y.Lo
		}
	case OURem:
		x, y := a(0), a(1)
		if y.IsConst() && y.C > 0 {
			if x.Lo/y.C == x.Hi/y.C {
				return x.Lo % y.C, x.Hi % y.C
			}
			return 0, y.C - 1
		}
		if y.Lo > 0 {
			h := y.Hi - 1
			if x.Hi < h {
				h = x.Hi
			}
			return 0, h
		}
	case OBAnd:
		h := a(0).Hi
		if a(1).Hi < h {
			h = a(1).Hi
		}
		return 0, h
	case OBOr, OBXor:
		// bounded by the next power of two above both
		h := a(0).Hi | a(1).Hi
		n := bits.Len64(h)
		if n < 64 {
			return 0, (uint64(1) << uint(n)) - 1
		}
	case OLShr:
		if a(1).IsConst() && a(1).C < uint64(w) {
			return a(0).Lo >> a(1).C, a(0).Hi >> a(1).C
		}
		return 0, a(0).Hi
	case OShl:
		if a(1).IsConst() && a(1).C < uint64(w) {
			sh := a(1).C
			if bits.Len64(a(0).Hi)+int(sh) <= w {
				return a(0).Lo << sh, a(0).Hi << sh
			}
		}
	case OIte:
		lo, hi := a(1).Lo, a(1).Hi
		if a(2).Lo < lo {
			lo = a(2).Lo
		}
		if a(2).Hi > hi {
			hi = a(2).Hi
		}
		return lo, hi
	case OConcat:
		lw := a(1).S.W
		if w <= 64 {
			return a(0).Lo<<uint(lw) | 0, a(0).Hi<<uint(lw) | mask(lw)
		}
	}
	return full()
}

// nonNeg reports whether t is known to be non-negative as a signed value.
func nonNeg(t *Term) bool { return t.Hi < uint64(1)<<uint(t.S.W-1) }

func (tt *TermTable) Bool(b bool) *Term {
	if b {
		return tt.mk(OConst, BoolSort, 1, "", 0, 0)
	}
	return tt.mk(OConst, BoolSort, 0, "", 0, 0)
}
func (tt *TermTable) True() *Term  { return tt.Bool(true) }
func (tt *TermTable) False() *Term { return tt.Bool(false) }

func (tt *TermTable) Const(w int, v uint64) *Term {
	if w > 64 {
		panic("const width > 64")
	}
	return tt.mk(OConst, BV(w), v&mask(w), "", 0, 0)
}
func (tt *TermTable) FPConst(f float64) *Term {
	return tt.mk(OConst, FPSort, math.Float64bits(f), "", 0, 0)
}
func (tt *TermTable) Var(name string, s Sort) *Term { return tt.mk(OVar, s, 0, name, 0, 0) }
func (tt *TermTable) Fresh(prefix string, s Sort) *Term {
	tt.nfresh++
	return tt.Var(fmt.Sprintf("%s!%d", prefix, tt.nfresh), s)
}

func (tt *TermTable) Not(a *Term) *Term {
	if a.IsConst() {
		return tt.Bool(a.C == 0)
	}
	if a.Op == ONot {
		return a.Args[0]
	}
	return tt.mk(ONot, BoolSort, 0, "", 0, 0, a)
}

func (tt *TermTable) And(as ...*Term) *Term {
	var out []*Term
	seen := map[int]bool{}
	for _, a := range as {
		if a.IsFalse() {
			return a
		}
		if a.IsTrue() || seen[a.ID] {
			continue
		}
		if a.Op == OAnd {
			for _, b := range a.Args {
				if !seen[b.ID] {
					seen[b.ID] = true
					out = append(out, b)
				}
			}
			continue
		}
		seen[a.ID] = true
		out = append(out, a)
	}
	for _, a := range out {
		if a.Op == ONot && seen[a.Args[0].ID] {
			return tt.False()
		}
	}
	if len(out) == 0 {
		return tt.True()
	}
	if len(out) == 1 {
		return out[0]
	}
	return tt.mk(OAnd, BoolSort, 0, "", 0, 0, out...)
}

func (tt *TermTable) Or(as ...*Term) *Term {
	var out []*Term
	seen := map[int]bool{}
	for _, a := range as {
		if a.IsTrue() {
			return a
		}
		if a.IsFalse() || seen[a.ID] {
			continue
		}
		if a.Op == OOr {
			for _, b := range a.Args {
				if !seen[b.ID] {
					seen[b.ID] = true
					out = append(out, b)
				}
			}
			continue
		}
		seen[a.ID] = true
		out = append(out, a)
	}
	for _, a := range out {
		if a.Op == ONot && seen[a.Args[0].ID] {
			return tt.True()
		}
	}
	if len(out) == 0 {
		return tt.False()
	}
	if len(out) == 1 {
		return out[0]
	}
	return tt.mk(OOr, BoolSort, 0, "", 0, 0, out...)
}

func (tt *TermTable) Implies(a, b *Term) *Term { return tt.Or(tt.Not(a), b) }

func (tt *TermTable) Ite(c, a, b *Term) *Term {
	if c.IsTrue() {
		return a
	}
	if c.IsFalse() {
		return b
	}
	if a == b {
		return a
	}
	if a.S != b.S {
		panic(fmt.Sprintf("ite sort mismatch %v %v", a.S, b.S))
	}
	if a.S.K == SBool {
		if a.IsTrue() && b.IsFalse() {
			return c
		}
		if a.IsFalse() && b.IsTrue() {
			return tt.Not(c)
		}
		if a.IsTrue() {
			return tt.Or(c, b)
		}
		if a.IsFalse() {
			return tt.And(tt.Not(c), b)
		}
		if b.IsTrue() {
			return tt.Or(tt.Not(c), a)
		}
		if b.IsFalse() {
			return tt.And(c, a)
		}
	}
	return tt.mk(OIte, a.S, 0, "", 0, 0, c, a, b)
}

func (tt *TermTable) Eq(a, b *Term) *Term {
	if a == b {
		return tt.True()
	}
	if a.S != b.S {
		panic(fmt.Sprintf("eq sort mismatch %v %v", a.S, b.S))
	}
	if a.IsConst() && b.IsConst() && a.S.K != SFP {
		return tt.Bool(a.C == b.C)
	}
	if a.S.K == SBV && (a.Hi < b.Lo || b.Hi < a.Lo) {
		return tt.False()
	}
	if a.S.K == SBool {
		if a.IsConst() {
			a, b = b, a
		}
		if b.IsTrue() {
			return a
		}
		if b.IsFalse() {
			return tt.Not(a)
		}
	}
	// eq(ite(c, k1, k2), k) with constants
	if b.IsConst() && a.Op == OIte && a.Args[1].IsConst() && a.Args[2].IsConst() {
		return tt.Ite(a.Args[0], tt.Eq(a.Args[1], b), tt.Eq(a.Args[2], b))
	}
	if a.IsConst() && b.Op == OIte && b.Args[1].IsConst() && b.Args[2].IsConst() {
		return tt.Ite(b.Args[0], tt.Eq(b.Args[1], a), tt.Eq(b.Args[2], a))
	}
	// zext(x) == const
	if b.IsConst() && a.Op == OZExt {
		in := a.Args[0]
		if b.C>>uint(in.S.W) != 0 && in.S.W < 64 {
			return tt.False()
		}
		return tt.Eq(in, tt.Const(in.S.W, b.C))
	}
	if a.IsConst() && b.Op == OZExt {
		return tt.Eq(b, a)
	}
	if a.ID > b.ID {
		a, b = b, a
	}
	return tt.mk(OEq, BoolSort, 0, "", 0, 0, a, b)
}

func sext(v uint64, w int) int64 {
	if w >= 64 {
		return int64(v)
	}
	sh := uint(64 - w)
	return int64(v<<sh) >> sh
}

func (tt *TermTable) binBV(op Op, a, b *Term) *Term {
	if a.S != b.S || a.S.K != SBV {
		panic(fmt.Sprintf("bv op %v sort mismatch %v %v", opNames[op], a.S, b.S))
	}
	w := a.S.W
	if a.IsConst() && b.IsConst() {
		x, y := a.C, b.C
		var r uint64
		switch op {
		case OAdd:
			r = x + y
		case OSub:
			r = x - y
		case OMul:
			r = x * y
		case OUDiv:
			if y == 0 {
				r = mask(w)
			} else {
				r = x / y
			}
		case OURem:
			if y == 0 {
				r = x
			} else {
				r = x % y
			}
		case OSDiv:
			sx, sy := sext(x, w), sext(y, w)
			if sy == 0 {
				if sx >= 0 {
					r = mask(w)
				} else {
					r = 1
				}
			} else if sy == -1 {
				r = uint64(-sx)
			} else {
				r = uint64(sx / sy)
			}
		case OSRem:
			sx, sy := sext(x, w), sext(y, w)
			if sy == 0 {
				r = x
			} else if sy == -1 {
				r = 0
			} else {
				r = uint64(sx % sy)
			}
		case OBAnd:
			r = x & y
		case OBOr:
			r = x | y
		case OBXor:
			r = x ^ y
		case OShl:
			if y >= uint64(w) {
				r = 0
			} else {
				r = x << y
			}
		case OLShr:
			if y >= uint64(w) {
				r = 0
			} else {
				r = x >> y
			}
		case OAShr:
			sx := sext(x, w)
			if y >= uint64(w) {
				if sx < 0 {
					r = mask(w)
				} else {
					r = 0
				}
			} else {
				r = uint64(sx >> y)
			}
		}
		return tt.Const(w, r)
	}
	if (op == OSDiv || op == OSRem) && nonNeg(a) && nonNeg(b) && b.Lo > 0 {
		if op == OSDiv {
			return tt.binBV(OUDiv, a, b)
		}
		return tt.binBV(OURem, a, b)
	}
	if op == OAShr && nonNeg(a) {
		return tt.binBV(OLShr, a, b)
	}
	if op == OURem && b.IsConst() && b.C > 0 && a.Hi < b.C {
		return a
	}
	// (x * c) / c = x and (x * c) % c = 0 when the product cannot wrap
	if (op == OUDiv || op == OURem) && b.IsConst() && b.C > 0 && a.Op == OMul && a.Args[1].IsConst() && a.Args[1].C == b.C {
		if hh, hl := bits.Mul64(a.Args[0].Hi, b.C); hh == 0 && hl <= mask(w) {
			if op == OUDiv {
				return a.Args[0]
			}
			return tt.Const(w, 0)
		}
	}
	// identities
	switch op {
	case OAdd:
		if a.IsConst() && a.C == 0 {
			return b
		}
		if b.IsConst() && b.C == 0 {
			return a
		}
		// (x + c1) + c2
		if b.IsConst() && a.Op == OAdd && a.Args[1].IsConst() {
			return tt.binBV(OAdd, a.Args[0], tt.Const(w, a.Args[1].C+b.C))
		}
		if a.IsConst() {
			a, b = b, a
		}
	case OSub:
		if b.IsConst() && b.C == 0 {
			return a
		}
		if a == b {
			return tt.Const(w, 0)
		}
		if b.IsConst() {
			return tt.binBV(OAdd, a, tt.Const(w, -b.C))
		}
	case OMul:
		if a.IsConst() {
			a, b = b, a
		}
		if b.IsConst() {
			if b.C == 0 {
				return b
			}
			if b.C == 1 {
				return a
			}
		}
	case OBAnd:
		if a.IsConst() {
			a, b = b, a
		}
		if b.IsConst() {
			if b.C == 0 {
				return b
			}
			if b.C == mask(w) {
				return a
			}
		}
		if a == b {
			return a
		}
	case OBOr, OBXor:
		if a.IsConst() {
			a, b = b, a
		}
		if b.IsConst() && b.C == 0 {
			return a
		}
		if a == b {
			if op == OBOr {
				return a
			}
			return tt.Const(w, 0)
		}
	case OShl, OLShr, OAShr:
		if b.IsConst() && b.C == 0 {
			return a
		}
		if a.IsConst() && a.C == 0 {
			return a
		}
		if b.IsConst() && b.C >= uint64(w) && op != OAShr {
			return tt.Const(w, 0)
		}
	case OUDiv:
		if b.IsConst() && b.C == 1 {
			return a
		}
		// division by power of two -> shift
		if b.IsConst() && b.C != 0 && b.C&(b.C-1) == 0 {
			return tt.binBV(OLShr, a, tt.Const(w, uint64(bits.TrailingZeros64(b.C))))
		}
	case OURem:
		if b.IsConst() && b.C != 0 && b.C&(b.C-1) == 0 {
			return tt.binBV(OBAnd, a, tt.Const(w, b.C-1))
		}
	}
	r := tt.mk(op, a.S, 0, "", 0, 0, a, b)
	if r.Lo == r.Hi {
		return tt.Const(w, r.Lo)
	}
	return r
}

func (tt *TermTable) Add(a, b *Term) *Term  { return tt.binBV(OAdd, a, b) }
func (tt *TermTable) Sub(a, b *Term) *Term  { return tt.binBV(OSub, a, b) }
func (tt *TermTable) Mul(a, b *Term) *Term  { return tt.binBV(OMul, a, b) }
func (tt *TermTable) UDiv(a, b *Term) *Term { return tt.binBV(OUDiv, a, b) }
func (tt *TermTable) URem(a, b *Term) *Term { return tt.binBV(OURem, a, b) }
func (tt *TermTable) SDiv(a, b *Term) *Term { return tt.binBV(OSDiv, a, b) }
func (tt *TermTable) SRem(a, b *Term) *Term { return tt.binBV(OSRem, a, b) }
func (tt *TermTable) BAnd(a, b *Term) *Term { return tt.binBV(OBAnd, a, b) }
func (tt *TermTable) BOr(a, b *Term) *Term  { return tt.binBV(OBOr, a, b) }
func (tt *TermTable) BXor(a, b *Term) *Term { return tt.binBV(OBXor, a, b) }
func (tt *TermTable) Shl(a, b *Term) *Term  { return tt.binBV(OShl, a, b) }
func (tt *TermTable) LShr(a, b *Term) *Term { return tt.binBV(OLShr, a, b) }
func (tt *TermTable) AShr(a, b *Term) *Term { return tt.binBV(OAShr, a, b) }

func (tt *TermTable) BNot(a *Term) *Term {
	if a.IsConst() {
		return tt.Const(a.S.W, ^a.C)
	}
	if a.Op == OBNot {
		return a.Args[0]
	}
	return tt.mk(OBNot, a.S, 0, "", 0, 0, a)
}
func (tt *TermTable) Neg(a *Term) *Term {
	if a.IsConst() {
		return tt.Const(a.S.W, -a.C)
	}
	return tt.mk(ONeg, a.S, 0, "", 0, 0, a)
}

func (tt *TermTable) cmpBV(op Op, a, b *Term) *Term {
	if a.S != b.S || a.S.K != SBV {
		panic(fmt.Sprintf("bv cmp %v sort mismatch %v %v", opNames[op], a.S, b.S))
	}
	w := a.S.W
	if a.IsConst() && b.IsConst() {
		switch op {
		case OUlt:
			return tt.Bool(a.C < b.C)
		case OUle:
			return tt.Bool(a.C <= b.C)
		case OSlt:
			return tt.Bool(sext(a.C, w) < sext(b.C, w))
		case OSle:
			return tt.Bool(sext(a.C, w) <= sext(b.C, w))
		}
	}
	if a == b {
		return tt.Bool(op == OUle || op == OSle)
	}
	if (op == OSlt || op == OSle) && nonNeg(a) && nonNeg(b) {
		if op == OSlt {
			op = OUlt
		} else {
			op = OUle
		}
	}
	if (op == OSlt || op == OSle) && nonNeg(a) && b.Lo >= uint64(1)<<uint(w-1) {
		return tt.False() // non-negative vs negative
	}
	if (op == OSlt || op == OSle) && nonNeg(b) && a.Lo >= uint64(1)<<uint(w-1) {
		return tt.True()
	}
	switch op {
	case OUlt:
		if a.Hi < b.Lo {
			return tt.True()
		}
		if a.Lo >= b.Hi {
			return tt.False()
		}
	case OUle:
		if a.Hi <= b.Lo {
			return tt.True()
		}
		if a.Lo > b.Hi {
			return tt.False()
		}
	}
	switch op {
	case OUlt:
		if b.IsConst() && b.C == 0 {
			return tt.False()
		}
		if a.IsConst() && a.C == mask(w) {
			return tt.False()
		}
	case OUle:
		if a.IsConst() && a.C == 0 {
			return tt.True()
		}
		if b.IsConst() && b.C == mask(w) {
			return tt.True()
		}
	}
	// comparisons of zero-extended values against constants
	if op == OUlt || op == OUle || op == OSlt || op == OSle {
		if a.Op == OZExt && b.IsConst() {
			in := a.Args[0]
			iw := in.S.W
			signed := op == OSlt || op == OSle
			bc := b.C
			if signed && sext(bc, w) < 0 {
				return tt.False() // nonneg < negative
			}
			if iw < 64 && bc > mask(iw) {
				return tt.True()
			}
			uop := OUlt
			if op == OUle || op == OSle {
				uop = OUle
			}
			return tt.cmpBV(uop, in, tt.Const(iw, bc))
		}
		if b.Op == OZExt && a.IsConst() {
			in := b.Args[0]
			iw := in.S.W
			signed := op == OSlt || op == OSle
			ac := a.C
			if signed && sext(ac, w) < 0 {
				return tt.True()
			}
			if iw < 64 && ac > mask(iw) {
				return tt.False()
			}
			uop := OUlt
			if op == OUle || op == OSle {
				uop = OUle
			}
			return tt.cmpBV(uop, tt.Const(iw, ac), in)
		}
	}
	return tt.mk(op, BoolSort, 0, "", 0, 0, a, b)
}
func (tt *TermTable) Ult(a, b *Term) *Term { return tt.cmpBV(OUlt, a, b) }
func (tt *TermTable) Ule(a, b *Term) *Term { return tt.cmpBV(OUle, a, b) }
func (tt *TermTable) Slt(a, b *Term) *Term { return tt.cmpBV(OSlt, a, b) }
func (tt *TermTable) Sle(a, b *Term) *Term { return tt.cmpBV(OSle, a, b) }

func (tt *TermTable) Concat(hi, lo *Term) *Term {
	w := hi.S.W + lo.S.W
	if hi.IsConst() && lo.IsConst() && w <= 64 {
		return tt.Const(w, hi.C<<uint(lo.S.W)|lo.C)
	}
	// concat(extract(x,h,m+1), extract(x,m,l)) = extract(x,h,l)
	if hi.Op == OExtract && lo.Op == OExtract && hi.Args[0] == lo.Args[0] && hi.P2 == lo.P1+1 {
		return tt.Extract(hi.Args[0], hi.P1, lo.P2)
	}
	if hi.IsConst() && hi.C == 0 {
		return tt.ZExt(lo, w)
	}
	return tt.mk(OConcat, BV(w), 0, "", 0, 0, hi, lo)
}

func (tt *TermTable) Extract(a *Term, hi, lo int) *Term {
	w := hi - lo + 1
	if lo == 0 && w == a.S.W {
		return a
	}
	if a.IsConst() {
		return tt.Const(w, a.C>>uint(lo))
	}
	switch a.Op {
	case OExtract:
		return tt.Extract(a.Args[0], hi+a.P2, lo+a.P2)
	case OConcat:
		lw := a.Args[1].S.W
		if hi < lw {
			return tt.Extract(a.Args[1], hi, lo)
		}
		if lo >= lw {
			return tt.Extract(a.Args[0], hi-lw, lo-lw)
		}
	case OZExt:
		iw := a.Args[0].S.W
		if hi < iw {
			return tt.Extract(a.Args[0], hi, lo)
		}
		if lo >= iw {
			return tt.Const(w, 0)
		}
	case OSExt:
		iw := a.Args[0].S.W
		if hi < iw {
			return tt.Extract(a.Args[0], hi, lo)
		}
	case OBAnd, OBOr, OBXor:
		if a.Args[1].IsConst() || a.Args[0].IsConst() {
			return tt.binBV(a.Op, tt.Extract(a.Args[0], hi, lo), tt.Extract(a.Args[1], hi, lo))
		}
	case OIte:
		if a.Args[1].IsConst() && a.Args[2].IsConst() {
			return tt.Ite(a.Args[0], tt.Extract(a.Args[1], hi, lo), tt.Extract(a.Args[2], hi, lo))
		}
	case OLShr:
		// extract of (x >> c) for constant c
		if a.Args[1].IsConst() {
			c := int(a.Args[1].C)
			if hi+c < a.S.W {
				return tt.Extract(a.Args[0], hi+c, lo+c)
			}
		}
	case OShl:
		if a.Args[1].IsConst() {
			c := int(a.Args[1].C)
			if lo >= c {
				return tt.Extract(a.Args[0], hi-c, lo-c)
			}
			if hi < c {
				return tt.Const(w, 0)
			}
		}
	}
	return tt.mk(OExtract, BV(w), 0, "", hi, lo, a)
}

// ZExt extends a to total width w.
func (tt *TermTable) ZExt(a *Term, w int) *Term {
	if w == a.S.W {
		return a
	}
	if w < a.S.W {
		return tt.Extract(a, w-1, 0)
	}
	if a.IsConst() {
		return tt.Const(w, a.C)
	}
	if a.Op == OZExt {
		return tt.ZExt(a.Args[0], w)
	}
	return tt.mk(OZExt, BV(w), 0, "", w-a.S.W, 0, a)
}

func (tt *TermTable) SExt(a *Term, w int) *Term {
	if w == a.S.W {
		return a
	}
	if w < a.S.W {
		return tt.Extract(a, w-1, 0)
	}
	if a.IsConst() {
		return tt.Const(w, uint64(sext(a.C, a.S.W)))
	}
	if a.Op == OZExt {
		return tt.ZExt(a.Args[0], w)
	}
	return tt.mk(OSExt, BV(w), 0, "", w-a.S.W, 0, a)
}

// Arrays (BV64 -> BV8)
func (tt *TermTable) ConstArr(v uint64) *Term {
	return tt.mk(OConstArr, ArrSort, v&0xff, "", 0, 0)
}
func (tt *TermTable) Select(arr, idx *Term) *Term {
	if idx.S != BV(64) {
		panic("select idx sort")
	}
	// read-over-write with constant indices
	a := arr
	for a.Op == OStore {
		si := a.Args[1]
		if si == idx {
			return a.Args[2]
		}
		if si.IsConst() && idx.IsConst() {
			a = a.Args[0]
			continue
		}
		break
	}
	if a.Op == OConstArr {
		return tt.Const(8, a.C)
	}
	return tt.mk(OSelect, BV(8), 0, "", 0, 0, a, idx)
}
func (tt *TermTable) Store(arr, idx, v *Term) *Term {
	if arr.Op == OStore && arr.Args[1] == idx {
		arr = arr.Args[0]
	}
	return tt.mk(OStore, ArrSort, 0, "", 0, 0, arr, idx, v)
}

// Floating point
func (tt *TermTable) fpCmp(op Op, a, b *Term) *Term {
	if a.IsConst() && b.IsConst() {
		x, y := math.Float64frombits(a.C), math.Float64frombits(b.C)
		switch op {
		case OFPLt:
			return tt.Bool(x < y)
		case OFPLe:
			return tt.Bool(x <= y)
		case OFPEq:
			return tt.Bool(x == y)
		}
	}
	return tt.mk(op, BoolSort, 0, "", 0, 0, a, b)
}
func (tt *TermTable) FPLt(a, b *Term) *Term { return tt.fpCmp(OFPLt, a, b) }
func (tt *TermTable) FPLe(a, b *Term) *Term { return tt.fpCmp(OFPLe, a, b) }
func (tt *TermTable) FPEq(a, b *Term) *Term { return tt.fpCmp(OFPEq, a, b) }
func (tt *TermTable) fpBin(op Op, a, b *Term) *Term {
	if a.IsConst() && b.IsConst() {
		x, y := math.Float64frombits(a.C), math.Float64frombits(b.C)
		switch op {
		case OFPAdd:
			return tt.FPConst(x + y)
		case OFPSub:
			return tt.FPConst(x - y)
		case OFPMul:
			return tt.FPConst(x * y)
		case OFPDiv:
			return tt.FPConst(x / y)
		}
	}
	return tt.mk(op, FPSort, 0, "", 0, 0, a, b)
}
func (tt *TermTable) FPUn(op Op, a *Term) *Term {
	if a.IsConst() {
		x := math.Float64frombits(a.C)
		switch op {
		case OFPNeg:
			return tt.FPConst(-x)
		case OFPAbs:
			return tt.FPConst(math.Abs(x))
		case OFPIsNaN:
			return tt.Bool(math.IsNaN(x))
		case OFPIsInf:
			return tt.Bool(math.IsInf(x, 0))
		}
	}
	s := FPSort
	if op == OFPIsNaN || op == OFPIsInf {
		s = BoolSort
	}
	return tt.mk(op, s, 0, "", 0, 0, a)
}
func (tt *TermTable) FPFromBits(a *Term) *Term {
	if a.IsConst() {
		return tt.mk(OConst, FPSort, a.C, "", 0, 0)
	}
	return tt.mk(OFPFromBits, FPSort, 0, "", 0, 0, a)
}
func (tt *TermTable) IntToFP(a *Term, signed bool) *Term {
	if a.IsConst() {
		if signed {
			return tt.FPConst(float64(sext(a.C, a.S.W)))
		}
		return tt.FPConst(float64(a.C))
	}
	if signed {
		return tt.mk(OSIntToFP, FPSort, 0, "", 0, 0, a)
	}
	return tt.mk(OUIntToFP, FPSort, 0, "", 0, 0, a)
}
func (tt *TermTable) FPToInt(a *Term, w int, signed bool) *Term {
	if a.IsConst() {
		x := math.Float64frombits(a.C)
		if signed {
			return tt.Const(w, uint64(int64(x)))
		}
		return tt.Const(w, uint64(x))
	}
	if signed {
		return tt.mk(OFPToSInt, BV(w), 0, "", w, 0, a)
	}
	return tt.mk(OFPToUInt, BV(w), 0, "", w, 0, a)
}

// App applies an uninterpreted function.
func (tt *TermTable) App(name string, s Sort, args ...*Term) *Term {
	t := tt.mk(OApp, s, 0, name, 0, 0, args...)
	if _, ok := tt.apps[name]; !ok {
		tt.apps[name] = t
	}
	return t
}

// ---- printing ----

func constStr(t *Term) string {
	switch t.S.K {
	case SBool:
		if t.C == 1 {
			return "true"
		}
		return "false"
	case SBV:
		if t.S.W%4 == 0 {
			return fmt.Sprintf("#x%0*x", t.S.W/4, t.C)
		}
		return fmt.Sprintf("#b%0*b", t.S.W, t.C)
	case SFP:
		return fmt.Sprintf("((_ to_fp 11 53) #x%016x)", t.C)
	}
	panic("const sort")
}

func ref(t *Term) string {
	switch t.Op {
	case OConst:
		return constStr(t)
	case OVar:
		return "|" + t.Name + "|"
	}
	return "t" + strconv.Itoa(t.ID)
}

// Body renders the defining expression of t with children as references.
func body(t *Term) string {
	var sb strings.Builder
	args := func() {
		for _, a := range t.Args {
			sb.WriteByte(' ')
			sb.WriteString(ref(a))
		}
	}
	switch t.Op {
	case OConst, OVar:
		return ref(t)
	case OExtract:
		fmt.Fprintf(&sb, "((_ extract %d %d)", t.P1, t.P2)
	case OZExt:
		fmt.Fprintf(&sb, "((_ zero_extend %d)", t.P1)
	case OSExt:
		fmt.Fprintf(&sb, "((_ sign_extend %d)", t.P1)
	case OConstArr:
		return fmt.Sprintf("((as const %s) #x%02x)", ArrSort, t.C)
	case OFPAdd:
		sb.WriteString("(fp.add RNE")
	case OFPSub:
		sb.WriteString("(fp.sub RNE")
	case OFPMul:
		sb.WriteString("(fp.mul RNE")
	case OFPDiv:
		sb.WriteString("(fp.div RNE")
	case OFPFromBits:
		sb.WriteString("((_ to_fp 11 53)")
	case OSIntToFP:
		sb.WriteString("((_ to_fp 11 53) RNE")
	case OUIntToFP:
		sb.WriteString("((_ to_fp_unsigned 11 53) RNE")
	case OFPToSInt:
		fmt.Fprintf(&sb, "((_ fp.to_sbv %d) RTZ", t.P1)
	case OFPToUInt:
		fmt.Fprintf(&sb, "((_ fp.to_ubv %d) RTZ", t.P1)
	case OApp:
		if len(t.Args) == 0 {
			return "|" + t.Name + "|"
		}
		sb.WriteString("(|" + t.Name + "|")
	default:
		n, ok := opNames[t.Op]
		if !ok {
			panic(fmt.Sprintf("no name for op %d", t.Op))
		}
		sb.WriteString("(" + n)
	}
	args()
	sb.WriteByte(')')
	return sb.String()
}

// Pretty prints a term as a nested expression, truncated, for evidence samples.
func Pretty(t *Term, budget int) string {
	var sb strings.Builder
	var rec func(t *Term, d int)
	rec = func(t *Term, d int) {
		if sb.Len() > budget {
			return
		}
		if t.Op == OConst || t.Op == OVar {
			if t.Op == OConst && t.S.K == SBV {
				fmt.Fprintf(&sb, "%d", t.C)
			} else {
				sb.WriteString(ref(t))
			}
			return
		}
		if d > 12 {
			sb.WriteString("…")
			return
		}
		switch t.Op {
		case OExtract:
			fmt.Fprintf(&sb, "(extract[%d:%d]", t.P1, t.P2)
		case OZExt:
			sb.WriteString("(zext")
		case OSExt:
			sb.WriteString("(sext")
		case OApp:
			sb.WriteString("(" + t.Name)
		default:
			if n, ok := opNames[t.Op]; ok {
				sb.WriteString("(" + n)
			} else {
				fmt.Fprintf(&sb, "(op%d", t.Op)
			}
		}
		for _, a := range t.Args {
			sb.WriteByte(' ')
			rec(a, d+1)
		}
		sb.WriteByte(')')
	}
	rec(t, 0)
	s := sb.String()
	if len(s) > budget {
		s = s[:budget] + "…"
	}
	return s
}
