package main

import (
	"fmt"
	"go/types"
	"math"
	"strings"

	"golang.org/x/tools/go/ssa"
)

var defaultRedirects = map[string]string{
	"internal/bytealg.IndexByte":         "golang.org/x/telemetry/internal/vrt.IndexByte",
	"internal/bytealg.IndexByteString":   "golang.org/x/telemetry/internal/vrt.IndexByteString",
	"internal/bytealg.Count":             "golang.org/x/telemetry/internal/vrt.Count",
	"internal/bytealg.CountString":       "golang.org/x/telemetry/internal/vrt.CountString",
	"internal/bytealg.Index":             "golang.org/x/telemetry/internal/vrt.Index",
	"internal/bytealg.IndexString":       "golang.org/x/telemetry/internal/vrt.IndexString",
	"internal/bytealg.Equal":             "golang.org/x/telemetry/internal/vrt.BytesEqual",
	"internal/bytealg.Compare":           "golang.org/x/telemetry/internal/vrt.BytesCompare",
	"internal/bytealg.CompareString":     "golang.org/x/telemetry/internal/vrt.CompareString",
	"internal/bytealg.LastIndexByte":     "golang.org/x/telemetry/internal/vrt.LastIndexByte",
	"internal/bytealg.LastIndexByteString": "golang.org/x/telemetry/internal/vrt.LastIndexByteString",
	"strings.Index":                      "golang.org/x/telemetry/internal/vrt.IndexString",
	"strings.LastIndex":                  "golang.org/x/telemetry/internal/vrt.LastIndexString",
	"bytes.Index":                        "golang.org/x/telemetry/internal/vrt.Index",
	"strings.Count":                      "golang.org/x/telemetry/internal/vrt.CountStr",
	"strings.Join":                       "golang.org/x/telemetry/internal/vrt.Join",
	"strings.Repeat":                     "golang.org/x/telemetry/internal/vrt.Repeat",
	"strings.TrimSpace":                  "golang.org/x/telemetry/internal/vrt.TrimSpaceString",
	"bytes.TrimSpace":                    "golang.org/x/telemetry/internal/vrt.TrimSpaceBytes",
	"sort.Slice":                         "golang.org/x/telemetry/internal/vrt.SortSlice",
	"sort.SliceStable":                   "golang.org/x/telemetry/internal/vrt.SortSlice",
	"sort.Strings":                       "golang.org/x/telemetry/internal/vrt.SortStrings",
	"sort.Sort":                          "golang.org/x/telemetry/internal/vrt.SortInterface",
	"sort.Stable":                        "golang.org/x/telemetry/internal/vrt.SortInterface",
	"time.Now":                           "golang.org/x/telemetry/internal/vrt.Now",
	"html.EscapeString":                  "golang.org/x/telemetry/internal/vrt.EscapeString",
	"unicode.IsSpace":                    "golang.org/x/telemetry/internal/vrt.IsSpaceRune",
	"unicode.IsLetter":                   "golang.org/x/telemetry/internal/vrt.IsLetterRune",
	"unicode.IsUpper":                    "golang.org/x/telemetry/internal/vrt.IsUpperRune",
	"unicode.IsLower":                    "golang.org/x/telemetry/internal/vrt.IsLowerRune",
	"runtime/debug.ReadBuildInfo":        "golang.org/x/telemetry/internal/vrt.ReadBuildInfo",
	"(*sync.Pool).Get":                   "golang.org/x/telemetry/internal/vrt.PoolGet",
	"(*sync.Pool).Put":                   "golang.org/x/telemetry/internal/vrt.PoolPut",
}

var defaultSkipInit = []string{"unicode", "runtime", "os", "syscall", "internal/poll", "net", "net/http", "crypto/rand", "reflect", "encoding/json", "regexp", "regexp/syntax", "log", "fmt", "flag", "testing", "internal/godebug", "math/rand", "html", "crypto/tls", "crypto/x509"}

func tup(vs ...Value) *Tuple { return &Tuple{V: vs} }

func (p *Path) chooseFork(n int) int {
	if n <= 1 {
		return 0
	}
	v := p.nondet("choose", BV(64))
	p.addPC(p.tt.Ult(v, p.tt.Const(64, uint64(n))))
	return int(p.concretize(v, "choose"))
}

func (p *Path) ndInt(kind string, w int) *Term { return p.nondet(kind, BV(w)) }

func (e *Engine) initIntrinsics() {
	in := map[string]Intrinsic{}
	e.intr = in
	nd := func(kind string, w int) Intrinsic {
		return func(p *Path, fn *ssa.Function, args []Value) Value { return p.ndInt(kind, w) }
	}
	in["vrt.U8"] = nd("u8", 8)
	in["vrt.U16"] = nd("u16", 16)
	in["vrt.U32"] = nd("u32", 32)
	in["vrt.U64"] = nd("u64", 64)
	in["vrt.I64"] = nd("i64", 64)
	in["vrt.I32"] = nd("i32", 32)
	in["vrt.Int"] = nd("int", 64)
	in["vrt.Bool"] = func(p *Path, fn *ssa.Function, args []Value) Value {
		v := p.ndInt("bool", 8)
		return p.tt.Not(p.tt.Eq(p.tt.BAnd(v, p.tt.Const(8, 1)), p.tt.Const(8, 0)))
	}
	in["vrt.F64"] = func(p *Path, fn *ssa.Function, args []Value) Value {
		v := p.ndInt("f64", 64)
		return p.tt.FPFromBits(v)
	}
	in["vrt.Observe"] = func(p *Path, fn *ssa.Function, args []Value) Value {
		p.obs = append(p.obs, args[0].(*Term))
		return nil
	}
	in["vrt.Unsupported"] = func(p *Path, fn *ssa.Function, args []Value) Value {
		msg := "vrt.Unsupported"
		if s, ok := args[0].(*Str); ok {
			if c, ok := strConcrete(s); ok {
				msg = c
			}
		}
		panic(p.unsupported("%s", msg))
	}
	in["vrt.IsSymbolic"] = func(p *Path, fn *ssa.Function, args []Value) Value { return p.tt.True() }
	in["vrt.Assume"] = func(p *Path, fn *ssa.Function, args []Value) Value {
		c := args[0].(*Term)
		if c.IsTrue() {
			return nil
		}
		if c.IsFalse() {
			panic(pathAbort{abInfeasible, "assume(false)"})
		}
		p.nsym++
		if p.di < len(p.dec) {
			// replay: an assume is recorded as a forced branch
			p.di++
			p.trace = append(p.trace, Decision{0, 1})
			p.addPC(c)
			return nil
		}
		if !p.feasible(c) {
			panic(pathAbort{abInfeasible, "assumption infeasible"})
		}
		p.trace = append(p.trace, Decision{0, 1})
		p.addPC(c)
		return nil
	}
	in["vrt.Assert"] = func(p *Path, fn *ssa.Function, args []Value) Value {
		label, _ := strConcrete(args[1].(*Str))
		p.assertCond(args[0].(*Term), label)
		return nil
	}
	in["vrt.Fail"] = func(p *Path, fn *ssa.Function, args []Value) Value {
		label, _ := strConcrete(args[0].(*Str))
		p.assertCond(p.tt.False(), label)
		return nil
	}
	in["vrt.Reach"] = func(p *Path, fn *ssa.Function, args []Value) Value {
		label, _ := strConcrete(args[0].(*Str))
		p.res.Reached = append(p.res.Reached, label)
		return nil
	}
	in["vrt.Stop"] = func(p *Path, fn *ssa.Function, args []Value) Value {
		panic(pathAbort{abStop, "vrt.Stop"})
	}
	in["vrt.PanicOK"] = func(p *Path, fn *ssa.Function, args []Value) Value {
		p.panicOK = true
		return nil
	}
	in["vrt.MapOrderSymbolic"] = func(p *Path, fn *ssa.Function, args []Value) Value {
		p.mapOrderSym = args[0].(*Term).IsTrue()
		return nil
	}
	in["vrt.Param"] = func(p *Path, fn *ssa.Function, args []Value) Value {
		name, _ := strConcrete(args[0].(*Str))
		def := args[1].(*Term)
		if p.eng.tier == "thorough" && p.cfg.ParamsT != nil {
			if v, ok := p.cfg.ParamsT[name]; ok {
				return p.tt.Const(64, uint64(v))
			}
		}
		if p.cfg.Params != nil {
			if v, ok := p.cfg.Params[name]; ok {
				return p.tt.Const(64, uint64(v))
			}
		}
		return def
	}
	in["vrt.Choose"] = func(p *Path, fn *ssa.Function, args []Value) Value {
		n := p.mustInt(args[0].(*Term), "Choose n")
		return p.tt.Const(64, uint64(p.chooseFork(n)))
	}
	conc := func(p *Path, fn *ssa.Function, args []Value) Value {
		t := args[0].(*Term)
		v := p.concretize(t, "vrt.Concrete")
		return p.tt.Const(t.S.W, v)
	}
	in["vrt.ConcreteInt"] = conc
	in["vrt.ConcreteU32"] = conc
	in["vrt.ConcreteU64"] = conc
	in["vrt.ConcreteU8"] = conc
	in["vrt.Bytes"] = func(p *Path, fn *ssa.Function, args []Value) Value {
		n := p.mustInt(args[0].(*Term), "Bytes n")
		bs := make([]*Term, n)
		for i := range bs {
			bs[i] = p.ndInt("u8", 8)
		}
		return p.bytesToSlice(bs, "vrt.Bytes")
	}
	in["vrt.String"] = func(p *Path, fn *ssa.Function, args []Value) Value {
		n := p.mustInt(args[0].(*Term), "String n")
		bs := make([]*Term, n)
		for i := range bs {
			bs[i] = p.ndInt("u8", 8)
		}
		return &Str{B: bs}
	}
	in["vrt.StringOfLen"] = func(p *Path, fn *ssa.Function, args []Value) Value {
		return &SymLenStr{Len: args[0].(*Term)}
	}
	in["vrt.BigBytes"] = func(p *Path, fn *ssa.Function, args []Value) Value {
		n := p.mustInt(args[0].(*Term), "BigBytes n")
		arr := p.tt.Var(fmt.Sprintf("ndarr%d", len(p.nd)), ArrSort)
		for i := 0; i < n; i++ {
			p.nd = append(p.nd, p.tt.mk(OSelect, BV(8), 0, "", 0, 0, arr, p.tt.Const(64, uint64(i))))
			p.ndKinds = append(p.ndKinds, "u8")
		}
		p.nobj++
		o := &Obj{ID: p.nobj, Buf: &ByteBuf{N: n, Arr: arr}, Name: "vrt.BigBytes"}
		nt := p.tt.Const(64, uint64(n))
		return &Slice{Obj: o, Off: p.tt.Const(64, 0), Len: nt, Cap: nt}
	}
	// MarkDead(b []byte): models munmap — later accesses through b's buffer are faults.
	in["vrt.MarkDead"] = func(p *Path, fn *ssa.Function, args []Value) Value {
		s := args[0].(*Slice)
		if s.Obj != nil && s.Obj.Buf != nil {
			s.Obj.Dead = true
		}
		return nil
	}
	in["vrt.AliasBytes"] = func(p *Path, fn *ssa.Function, args []Value) Value {
		s := args[0].(*Slice)
		if s.Obj == nil || s.Obj.Buf == nil {
			return s
		}
		p.nobj++
		o := &Obj{ID: p.nobj, Buf: s.Obj.Buf, Name: "mapping#" + fmt.Sprint(p.nobj)}
		if off, ok := p.cint(s.Off); ok && off == 0 {
			if n, ok := p.cint(s.Len); ok {
				o.Lim = n
			}
		}
		return &Slice{Obj: o, Off: s.Off, Len: s.Len, Cap: s.Cap}
	}
	// ShareBytes(dst, src []byte): dst becomes a view of the same buffer object (mmap MAP_SHARED).
	in["vrt.UF"] = func(p *Path, fn *ssa.Function, args []Value) Value {
		name, _ := strConcrete(args[0].(*Str))
		s := args[1].(*Slice)
		var as []*Term
		if s.Obj != nil {
			n := p.mustInt(s.Len, "UF args")
			for i := 0; i < n; i++ {
				as = append(as, p.load(p.sliceElemPtr(s, p.tt.Const(64, uint64(i)), types.Typ[types.Uint64]), types.Typ[types.Uint64]).(*Term))
			}
		}
		return p.tt.App("uf_"+name, BV(64), as...)
	}

	// ---- sync/atomic ----
	for _, ty := range []string{"Int32", "Int64", "Uint32", "Uint64", "Uintptr", "Pointer"} {
		ty := ty
		in["sync/atomic.Load"+ty] = func(p *Path, fn *ssa.Function, args []Value) Value {
			return p.load(args[0].(*Ptr), fn.Signature.Results().At(0).Type())
		}
		in["sync/atomic.Store"+ty] = func(p *Path, fn *ssa.Function, args []Value) Value {
			p.store(args[0].(*Ptr), fn.Signature.Params().At(1).Type(), args[1])
			return nil
		}
		in["sync/atomic.Swap"+ty] = func(p *Path, fn *ssa.Function, args []Value) Value {
			t := fn.Signature.Params().At(1).Type()
			old := p.load(args[0].(*Ptr), t)
			p.store(args[0].(*Ptr), t, args[1])
			return old
		}
		in["sync/atomic.CompareAndSwap"+ty] = func(p *Path, fn *ssa.Function, args []Value) Value {
			t := fn.Signature.Params().At(1).Type()
			ptr := args[0].(*Ptr)
			cur := p.load(ptr, t)
			eq := p.eqValue(cur, args[1])
			if ct, ok := cur.(*Term); ok {
				p.store(ptr, t, p.tt.Ite(eq, args[2].(*Term), ct))
				return eq
			}
			if p.branch(eq) {
				p.store(ptr, t, args[2])
				return p.tt.True()
			}
			return p.tt.False()
		}
		if ty != "Pointer" {
			in["sync/atomic.Add"+ty] = func(p *Path, fn *ssa.Function, args []Value) Value {
				t := fn.Signature.Params().At(1).Type()
				ptr := args[0].(*Ptr)
				cur := p.load(ptr, t).(*Term)
				nv := p.tt.Add(cur, args[1].(*Term))
				p.store(ptr, t, nv)
				return nv
			}
			in["sync/atomic.And"+ty] = func(p *Path, fn *ssa.Function, args []Value) Value {
				t := fn.Signature.Params().At(1).Type()
				ptr := args[0].(*Ptr)
				cur := p.load(ptr, t).(*Term)
				p.store(ptr, t, p.tt.BAnd(cur, args[1].(*Term)))
				return cur
			}
			in["sync/atomic.Or"+ty] = func(p *Path, fn *ssa.Function, args []Value) Value {
				t := fn.Signature.Params().At(1).Type()
				ptr := args[0].(*Ptr)
				cur := p.load(ptr, t).(*Term)
				p.store(ptr, t, p.tt.BOr(cur, args[1].(*Term)))
				return cur
			}
		}
	}
	// ---- sync ----
	mutexField := func(p *Path, m *Ptr) *Ptr {
		return &Ptr{Obj: m.Obj, Path: appendPath(m.Path, PathEl{Field: 0})}
	}
	i32 := types.Typ[types.Int32]
	lock := func(p *Path, fn *ssa.Function, args []Value) Value {
		m := args[0].(*Ptr)
		if m.Obj == nil {
			p.goPanicRuntime("nil mutex")
		}
		f := mutexField(p, m)
		st := p.load(f, i32).(*Term)
		if !p.branch(p.tt.Eq(st, p.tt.Const(32, 0))) {
			p.fault("deadlock: sync.Mutex.Lock on a mutex already held (sequential execution)")
		}
		p.store(f, i32, p.tt.Const(32, 1))
		return nil
	}
	unlock := func(p *Path, fn *ssa.Function, args []Value) Value {
		m := args[0].(*Ptr)
		f := mutexField(p, m)
		st := p.load(f, i32).(*Term)
		if !p.branch(p.tt.Not(p.tt.Eq(st, p.tt.Const(32, 0)))) {
			p.fault("sync: unlock of unlocked mutex")
		}
		p.store(f, i32, p.tt.Const(32, 0))
		return nil
	}
	in["(*sync.Mutex).Lock"] = lock
	in["(*sync.Mutex).Unlock"] = unlock
	in["(*sync.Mutex).TryLock"] = func(p *Path, fn *ssa.Function, args []Value) Value {
		m := args[0].(*Ptr)
		f := mutexField(p, m)
		st := p.load(f, i32).(*Term)
		if p.branch(p.tt.Eq(st, p.tt.Const(32, 0))) {
			p.store(f, i32, p.tt.Const(32, 1))
			return p.tt.True()
		}
		return p.tt.False()
	}
	rwField := func(p *Path, m *Ptr) *Ptr { // use field "w" (Mutex) state
		return &Ptr{Obj: m.Obj, Path: appendPath(appendPath(m.Path, PathEl{Field: 0}), PathEl{Field: 0})}
	}
	in["(*sync.RWMutex).Lock"] = func(p *Path, fn *ssa.Function, args []Value) Value {
		f := rwField(p, args[0].(*Ptr))
		st := p.load(f, i32).(*Term)
		if !p.branch(p.tt.Eq(st, p.tt.Const(32, 0))) {
			p.fault("deadlock: sync.RWMutex.Lock on a held lock")
		}
		p.store(f, i32, p.tt.Const(32, 1))
		return nil
	}
	in["(*sync.RWMutex).Unlock"] = func(p *Path, fn *ssa.Function, args []Value) Value {
		p.store(rwField(p, args[0].(*Ptr)), i32, p.tt.Const(32, 0))
		return nil
	}
	in["(*sync.RWMutex).RLock"] = func(p *Path, fn *ssa.Function, args []Value) Value {
		f := rwField(p, args[0].(*Ptr))
		st := p.load(f, i32).(*Term)
		if !p.branch(p.tt.Not(p.tt.Eq(st, p.tt.Const(32, 1)))) {
			p.fault("deadlock: sync.RWMutex.RLock while write-locked")
		}
		return nil
	}
	in["(*sync.RWMutex).RUnlock"] = func(p *Path, fn *ssa.Function, args []Value) Value { return nil }
	in["(*sync.WaitGroup).Add"] = func(p *Path, fn *ssa.Function, args []Value) Value { return nil }
	in["(*sync.WaitGroup).Done"] = func(p *Path, fn *ssa.Function, args []Value) Value { return nil }
	in["(*sync.WaitGroup).Wait"] = func(p *Path, fn *ssa.Function, args []Value) Value { return nil }

	// ---- runtime / misc ----
	nop := func(p *Path, fn *ssa.Function, args []Value) Value { return nil }
	in["runtime.KeepAlive"] = nop
	in["runtime.SetFinalizer"] = nop
	in["runtime.GC"] = nop
	in["runtime.Gosched"] = nop
	in["(*strings.Builder).copyCheck"] = nop
	in["internal/abi.NoEscape"] = func(p *Path, fn *ssa.Function, args []Value) Value { return args[0] }
	in["internal/race.Enabled"] = nop
	in["internal/bytealg.MakeNoZero"] = func(p *Path, fn *ssa.Function, args []Value) Value {
		n := p.mustInt(args[0].(*Term), "MakeNoZero")
		return p.makeSlice(types.Typ[types.Uint8], n, n)
	}
	in["math.Float64bits"] = func(p *Path, fn *ssa.Function, args []Value) Value {
		f := args[0].(*Term)
		if f.IsConst() {
			return p.tt.Const(64, f.C)
		}
		if f.Op == OFPFromBits {
			return f.Args[0]
		}
		v := p.tt.Fresh("fpbits", BV(64))
		p.addPC(p.tt.Eq(p.tt.FPFromBits(v), f))
		return v
	}
	in["math.Float64frombits"] = func(p *Path, fn *ssa.Function, args []Value) Value {
		return p.tt.FPFromBits(args[0].(*Term))
	}
	in["math.IsNaN"] = func(p *Path, fn *ssa.Function, args []Value) Value {
		return p.tt.FPUn(OFPIsNaN, args[0].(*Term))
	}
	in["math.IsInf"] = func(p *Path, fn *ssa.Function, args []Value) Value {
		f := args[0].(*Term)
		sign := args[1].(*Term)
		inf := p.tt.FPUn(OFPIsInf, f)
		pos := p.tt.FPLt(p.tt.FPConst(0), f)
		s, ok := p.cint(sign)
		if !ok {
			panic(p.unsupported("math.IsInf with symbolic sign"))
		}
		switch {
		case s > 0:
			return p.tt.And(inf, pos)
		case s < 0:
			return p.tt.And(inf, p.tt.Not(pos))
		}
		return inf
	}
	in["math.Abs"] = func(p *Path, fn *ssa.Function, args []Value) Value {
		return p.tt.FPUn(OFPAbs, args[0].(*Term))
	}
	in["math.Inf"] = func(p *Path, fn *ssa.Function, args []Value) Value {
		s, _ := p.cint(args[0].(*Term))
		return p.tt.FPConst(math.Inf(s))
	}
	in["math.NaN"] = func(p *Path, fn *ssa.Function, args []Value) Value { return p.tt.FPConst(math.NaN()) }

	// ---- errors / fmt ----
	in["fmt.Sprintf"] = func(p *Path, fn *ssa.Function, args []Value) Value {
		return p.sprintf(args[0].(*Str), p.variadic(args[1]), false)
	}
	in["fmt.Sprint"] = func(p *Path, fn *ssa.Function, args []Value) Value {
		vs := p.variadic(args[0])
		f := strings.Repeat("%v", len(vs))
		return p.sprintf(p.concStr(f), vs, false)
	}
	in["fmt.Errorf"] = func(p *Path, fn *ssa.Function, args []Value) Value {
		return p.errorf(args[0].(*Str), p.variadic(args[1]))
	}
	in["fmt.Fprintf"] = func(p *Path, fn *ssa.Function, args []Value) Value {
		return tup(p.tt.Const(64, 0), &Iface{})
	}
	in["fmt.Fprintln"] = in["fmt.Fprintf"]
	in["fmt.Fprint"] = in["fmt.Fprintf"]
	in["fmt.Printf"] = in["fmt.Fprintf"]
	in["fmt.Println"] = in["fmt.Fprintf"]
	in["fmt.Print"] = in["fmt.Fprintf"]
	for _, n := range []string{"Printf", "Println", "Print"} {
		in["log."+n] = nop
		in["(*log.Logger)."+n] = nop
	}
	for _, n := range []string{"Fatalf", "Fatal", "Fatalln"} {
		h := func(p *Path, fn *ssa.Function, args []Value) Value {
			p.exitEvent(1)
			return nil
		}
		in["log."+n] = h
		in["(*log.Logger)."+n] = h
	}
	in["log.New"] = func(p *Path, fn *ssa.Function, args []Value) Value {
		t := fn.Signature.Results().At(0).Type().(*types.Pointer).Elem()
		return &Ptr{Obj: p.newObj(t, p.zero(t), "log.Logger")}
	}
	in["log.Default"] = func(p *Path, fn *ssa.Function, args []Value) Value {
		t := fn.Signature.Results().At(0).Type().(*types.Pointer).Elem()
		return &Ptr{Obj: p.newObj(t, p.zero(t), "log.Logger")}
	}
	in["(*log.Logger).SetOutput"] = nop
	in["(*log.Logger).SetFlags"] = nop
	in["(*log.Logger).SetPrefix"] = nop
	in["log.SetFlags"] = nop
	in["log.SetPrefix"] = nop
	in["log.SetOutput"] = nop
	in["errors.Is"] = func(p *Path, fn *ssa.Function, args []Value) Value { return p.errorsIs(args[0].(*Iface), args[1].(*Iface)) }
	in["fmt.Sscanf"] = func(p *Path, fn *ssa.Function, args []Value) Value {
		f, _ := strConcrete(args[1].(*Str))
		if f == "v%d.%d.%d" {
			vs := p.variadic(args[2])
			h := p.eng.findFunc("golang.org/x/telemetry/internal/vrt.ScanSemver")
			return p.callFunction(h, []Value{args[0], vs[0].V, vs[1].V, vs[2].V}, nil)
		}
		if f != "sentinel %x" {
			panic(p.unsupported("fmt.Sscanf with format %q", f))
		}
		vs := p.variadic(args[2])
		h := p.eng.findFunc("golang.org/x/telemetry/internal/vrt.ScanSentinel")
		return p.callFunction(h, []Value{args[0], vs[0].V}, nil)
	}
	in["golang.org/x/telemetry/internal/crashmonitor.sentinel"] = func(p *Path, fn *ssa.Function, args []Value) Value {
		return p.tt.Var("child_sentinel", BV(64))
	}
	in["regexp.MustCompile"] = func(p *Path, fn *ssa.Function, args []Value) Value {
		pat, _ := strConcrete(args[0].(*Str))
		t := fn.Signature.Results().At(0).Type().(*types.Pointer).Elem()
		return &Ptr{Obj: &Obj{ID: -1, T: t, V: &Opaque{Kind: "regexp", Data: pat}, Name: "regexp:" + pat}}
	}
	in["(*regexp.Regexp).FindStringSubmatch"] = func(p *Path, fn *ssa.Function, args []Value) Value {
		re := args[0].(*Ptr)
		if re.Obj == nil {
			p.goPanicRuntime("nil *regexp.Regexp")
		}
		const datePat = `(\d\d\d\d-\d\d-\d\d)[.]json$`
		if re.Obj.Name == "regexp:"+"^-(go.+)\\.[^.]+-[^.]+$" {
			h := p.eng.findFunc("golang.org/x/telemetry/internal/vrt.GoVersionREFind")
			return p.callFunction(h, []Value{args[1]}, nil)
		}
		if re.Obj.Name != "regexp:"+datePat {
			panic(p.unsupported("regexp %q has no model", re.Obj.Name))
		}
		h := p.eng.findFunc("golang.org/x/telemetry/internal/vrt.DateREFind")
		return p.callFunction(h, []Value{args[1]}, nil)
	}
	// math/rand: the global source is not initialised under the engine; Intn(n) is an
	// arbitrary value in [0,n).
	randIntn := func(p *Path, fn *ssa.Function, args []Value) Value {
		n := args[len(args)-1].(*Term)
		// (a fresh variable, not a harness input: native replay uses the real generator)
		if p.eng.spec.RandFixed != nil && n.IsConst() && n.C > 0 {
			return p.tt.Const(n.S.W, uint64(*p.eng.spec.RandFixed)%n.C) // stated restriction of the spec
		}
		if !n.IsConst() || n.C == 0 {
			v := p.tt.Fresh("rand", BV(n.S.W))
			p.addPC(p.tt.Ult(v, n))
			return v
		}
		// value = raw % n: the interval analysis then knows the range
		return p.tt.URem(p.tt.Fresh("rand", BV(n.S.W)), n)
	}
	in["math/rand.Intn"] = randIntn
	in["math/rand.Int63n"] = randIntn
	in["math/rand.Int31n"] = randIntn
	in["math/rand/v2.IntN"] = randIntn
	for _, pk := range []string{"golang.org/x/exp/slog", "log/slog"} {
		for _, n := range []string{"Debug", "Info", "Warn", "Error", "DebugContext", "InfoContext", "WarnContext", "ErrorContext", "Log", "LogAttrs"} {
			in[pk+"."+n] = nop
			in["(*"+pk+".Logger)."+n] = nop
		}
	}
	in["os.Getenv"] = func(p *Path, fn *ssa.Function, args []Value) Value { return &Str{} }
	in["os.Exit"] = func(p *Path, fn *ssa.Function, args []Value) Value {
		c, _ := p.cint(args[0].(*Term))
		p.exitEvent(c)
		return nil
	}
}

func (p *Path) exitEvent(code int) {
	p.res.Reached = append(p.res.Reached, fmt.Sprintf("os.Exit(%d)", code))
	if h := p.eng.findFunc("golang.org/x/telemetry/internal/vrt.OnExit"); h != nil && h.Blocks != nil && !p.inExit {
		p.inExit = true
		p.callFunction(h, []Value{p.tt.Const(64, uint64(code))}, nil)
	}
	panic(pathAbort{abStop, fmt.Sprintf("os.Exit(%d)", code)})
}

// variadic converts a []any slice value to a list of interface values.
func (p *Path) variadic(v Value) []*Iface {
	s := v.(*Slice)
	if s.Obj == nil {
		return nil
	}
	n := p.mustInt(s.Len, "variadic len")
	out := make([]*Iface, n)
	anyT := types.NewInterfaceType(nil, nil)
	for i := 0; i < n; i++ {
		out[i] = p.load(p.sliceElemPtr(s, p.tt.Const(64, uint64(i)), anyT), anyT).(*Iface)
	}
	return out
}

func (p *Path) errorsIs(err, target *Iface) Value {
	for depth := 0; depth < 10; depth++ {
		if err.T == nil {
			return p.tt.Bool(target.T == nil)
		}
		if target.T != nil && types.Identical(err.T, target.T) {
			if c := p.eqValue(err.V, target.V); !c.IsFalse() {
				if p.branch(c) {
					return p.tt.True()
				}
			}
		}
		um := p.eng.lookupMethodByName(err.T, "Unwrap")
		if um == nil {
			return p.tt.False()
		}
		r := p.callFunction(um, []Value{err.V}, nil)
		ni, ok := r.(*Iface)
		if !ok {
			return p.tt.False()
		}
		err = ni
	}
	return p.tt.False()
}

// stringOf renders an interface value for %s/%v, calling Error()/String() if present.
func (p *Path) stringOf(a *Iface, verb byte) (*Str, bool) {
	if a.T == nil {
		return p.concStr("<nil>"), true
	}
	if verb == 's' || verb == 'v' || verb == 'q' {
		if m := p.eng.lookupMethodByName(a.T, "Error"); m != nil && m.Signature.Params().Len() == 0 {
			if ptr, ok := a.V.(*Ptr); ok && ptr.Obj == nil {
				return p.concStr("<nil>"), true
			}
			if s, ok := p.callFunction(m, []Value{a.V}, nil).(*Str); ok {
				return s, true
			}
		}
		if m := p.eng.lookupMethodByName(a.T, "String"); m != nil && m.Signature.Params().Len() == 0 && m.Signature.Results().Len() == 1 {
			if ptr, ok := a.V.(*Ptr); ok && ptr.Obj == nil {
				return p.concStr("<nil>"), true
			}
			if s, ok := p.callFunction(m, []Value{a.V}, nil).(*Str); ok {
				return s, true
			}
		}
	}
	if s, ok := a.V.(*Str); ok {
		return s, true
	}
	return nil, false
}

func (p *Path) sprintf(format *Str, args []*Iface, lenient bool) *Str {
	f, ok := strConcrete(format)
	if !ok {
		panic(p.unsupported("Sprintf with symbolic format"))
	}
	var out []*Term
	emit := func(s string) {
		for i := 0; i < len(s); i++ {
			out = append(out, p.tt.Const(8, uint64(s[i])))
		}
	}
	ai := 0
	for i := 0; i < len(f); i++ {
		c := f[i]
		if c != '%' {
			out = append(out, p.tt.Const(8, uint64(c)))
			continue
		}
		j := i + 1
		for j < len(f) && strings.IndexByte("+-# 0123456789.", f[j]) >= 0 {
			j++
		}
		if j >= len(f) {
			emit("%!(NOVERB)")
			break
		}
		verb := f[j]
		spec := f[i : j+1]
		i = j
		if verb == '%' {
			emit("%")
			continue
		}
		if ai >= len(args) {
			emit("%!" + string(verb) + "(MISSING)")
			continue
		}
		a := args[ai]
		ai++
		plain := len(spec) == 2
		switch verb {
		case 's', 'v', 'q', 'w':
			v := verb
			if v == 'w' {
				v = 'v'
			}
			if a.T != nil {
				if t, isT := a.V.(*Term); isT && (verb == 'v') {
					out = append(out, p.fmtScalar("%"+spec[1:len(spec)-1]+"v", t, a.T, lenient)...)
					continue
				}
			}
			s, ok := p.stringOf(a, v)
			if !ok {
				if lenient {
					emit("<?>")
					continue
				}
				panic(p.unsupported("Sprintf %%%c of %v", verb, a.T))
			}
			if cs, isC := strConcrete(s); isC {
				emit(fmt.Sprintf(spec[:len(spec)-1]+string(v), cs))
				continue
			}
			if lenient {
				emit("<?>") // error/log text: symbolic content is not reproduced
				continue
			}
			if verb == 'q' || !plain {
				if lenient {
					emit("<?>")
					continue
				}
				// %q of a symbolic string: safe characters only (assumed printable ASCII without quote/backslash)
				panic(p.unsupported("Sprintf %s of symbolic string", spec))
			}
			out = append(out, s.B...)
		default:
			t, isT := a.V.(*Term)
			if !isT {
				if lenient {
					emit("<?>")
					continue
				}
				panic(p.unsupported("Sprintf %s of %T", spec, a.V))
			}
			out = append(out, p.fmtScalar(spec, t, a.T, lenient)...)
		}
	}
	return &Str{B: out}
}

func (p *Path) fmtScalar(spec string, t *Term, typ types.Type, lenient bool) []*Term {
	conv := func(s string) []*Term {
		r := make([]*Term, len(s))
		for i := 0; i < len(s); i++ {
			r[i] = p.tt.Const(8, uint64(s[i]))
		}
		return r
	}
	if t.S.K == SBV && !t.IsConst() && t.Hi <= 9 && (spec == "%d" || spec == "%v") {
		// a single decimal digit: one symbolic byte, no case split
		return []*Term{p.tt.Add(p.tt.Const(8, '0'), p.tt.Extract(t, 7, 0))}
	}
	if t.S.K == SBV && !t.IsConst() {
		if lenient {
			return conv("<?>")
		}
		v := p.concretize(t, "Sprintf integer")
		t = p.tt.Const(t.S.W, v)
	}
	if !t.IsConst() && t.S.K == SFP && spec == "%g" && !lenient {
		// %g of a symbolic float: an arbitrary 3-byte text over the verb's alphabet, the
		// same text for the same value term (stated stub: fmt is not interpreted)
		if p.gtext == nil {
			p.gtext = map[int][]*Term{}
		}
		if bs, ok := p.gtext[t.ID]; ok {
			return bs
		}
		bs := make([]*Term, 3)
		for i := range bs {
			b := p.tt.Fresh("gtext", BV(8))
			bs[i] = b
			isd := p.tt.And(p.tt.Ule(p.tt.Const(8, '0'), b), p.tt.Ule(b, p.tt.Const(8, '9')))
			var alts []*Term
			alts = append(alts, isd)
			for _, c := range []byte(".e+-") {
				alts = append(alts, p.tt.Eq(b, p.tt.Const(8, uint64(c))))
			}
			p.addPC(p.tt.Or(alts...))
		}
		p.gtext[t.ID] = bs
		return bs
	}
	if !t.IsConst() && t.S.K == SBool && !lenient {
		t = p.tt.Bool(p.branch(t))
	}
	if !t.IsConst() {
		if lenient {
			return conv("<?>")
		}
		panic(p.unsupported("Sprintf %s of symbolic %v", spec, t.S))
	}
	switch t.S.K {
	case SBool:
		return conv(fmt.Sprintf(spec, t.C == 1))
	case SFP:
		return conv(fmt.Sprintf(spec, math.Float64frombits(t.C)))
	case SBV:
		_, signed := typeWidth(typ)
		if signed {
			return conv(fmt.Sprintf(spec, sext(t.C, t.S.W)))
		}
		return conv(fmt.Sprintf(spec, t.C))
	}
	return conv("<?>")
}

// errorf builds an error value; content is formatted leniently (messages are not inspected by properties).
func (p *Path) errorf(format *Str, args []*Iface) Value {
	f, _ := strConcrete(format)
	var wrapped *Iface
	if strings.Contains(f, "%w") {
		// find the wrapped error: the arg matching %w
		idx := 0
		for i := 0; i < len(f)-1; i++ {
			if f[i] == '%' {
				if f[i+1] == '%' {
					i++
					continue
				}
				j := i + 1
				for j < len(f) && strings.IndexByte("+-# 0123456789.", f[j]) >= 0 {
					j++
				}
				if j < len(f) && f[j] == 'w' && idx < len(args) {
					wrapped = args[idx]
				}
				idx++
				i = j
			}
		}
	}
	msg := p.sprintf(format, args, true)
	vrt := p.eng.pkgs["golang.org/x/telemetry/internal/vrt"]
	if wrapped != nil {
		t := vrt.Type("WrapError").Type()
		o := p.newObj(t, &Struct{F: []Value{msg, wrapped}}, "wrapError")
		return &Iface{T: types.NewPointer(t), V: &Ptr{Obj: o}}
	}
	t := vrt.Type("StrError").Type()
	o := p.newObj(t, &Struct{F: []Value{msg}}, "errorf")
	return &Iface{T: types.NewPointer(t), V: &Ptr{Obj: o}}
}
